"""C14 - built-in bus delivers each message to the right peer with the true sender.
Correspondence + oracle harness.

The real `txdbus.bus.Bus` serves 2-4 (at most 6 over a history) scripted clients.  Every client is a
real `BusProtocol` on a recording `StringTransport`; it authenticates with real bytes
(`\\0AUTH ANONYMOUS\\r\\nBEGIN\\r\\n`) and then speaks marshalled DBus messages (`.rawMessage` of the
four message classes, forged sender fields re-marshalled in).  What every client finds on its transport
is parsed back with `message.parseMessage`.  A *history* is a list of operations (connect, Hello,
RequestName / ReleaseName / AddMatch / other calls to the bus, unicast messages of all four types to
unique, well-known, unknown names, broadcasts, bursts of several messages in one read, disconnects).

Two independent judgements per history:

  S3  the Lean model (lean/TxdbusModel/Bus/Route.lean through drv_c14) gets one line per event and must
      print, for every event, the same deliveries in the same global order (receiver, every observable
      field, opaque body token), the same allocated name and the same `loseConnection` flag.  What the
      name functions did (C13 owns them) is observed on the real bus (table heads before/after, calls of
      sendSignal / broadcastSignal) and handed to the model as `Effect`s.
  S4  the oracle below: a reference router written from the property statement, fed only with the
      history and the received lists (and, for well-known names, the bus's own name table - C13's).

A fifth, oracle-only stream 'unicast-with-descriptor' (not a correspondence obligation, not modelled) sends
method calls that carry a stand-in descriptor through the bus and reports the KNOWN finding `bus-drops-descriptors`.
"""
import hashlib
import itertools
import json

STREAMS = ['corpus-and-exemplars', 'interleavings-exhaustive', 'foreign-messages', 'bodies-reencode',
           'full-rule-language', 'buses-and-dropped-links', 'histories-random']
THEOREMS = ['unique_names_fresh', 'unique_names_never_reused', 'unicast_exact', 'owner_unique',
            'sender_is_true', 'remarshal_keeps', 'unchanged_except_sender', 'remarshal_drops_extra_fields',
            'order_preserved', 'bus_calls_answered_not_forwarded', 'disconnect_completes',
            'broadcast_exact', 'rules_held_by_connected_clients', 'sender_constraint_is_ignored',
            'simple_rule_keys_are_the_routers',
            'original_unicast_reaches_rule_holder', 'original_rule_outlives_its_client',
            # extension 2026-09-30: the full rule language, composed with C12
            'bus_rule_matches_iff_c12_spec', 'bus_rule_matches_iff_c12_relation', 'full_rule_matches_iff_spec',
            'held_rules_were_registered', 'broadcast_exact_full', 'broadcast_exact_found_router_partial',
            'bus_broadcast_exact_full', 'addmatch_text_roundtrip', 'client_text_rule_matches_spec',
            'client_text_history_held_in_spec', 'held_rules_come_from_texts', 'broadcast_order_preserved',
            'broadcast_first_copies_in_order', 'simple_rules_embed', 'simple_histories_embed',
            'arg0namespace_is_ignored', 'sender_constraint_is_ignored_full', 'bus_signal_ignores_arg0namespace']
TRUSTED_BASE = [
    'a message is its observable header (type, serial, whole flags byte, the nine known header fields, a token for fields '
    'with unknown codes) plus an opaque body token (byte order + signature + digest of the body bytes); the model\'s '
    '`remarshal` mirrors parseMessage + _marshal(False, rawBody=...) against the per-class header tables generated from '
    'message.py; that the bytes the bus writes decode to what `remarshal` says is checked on every delivery (S3), that '
    'they equal what was sent except for the sender is the oracle (S4: field by field as a mapping code -> (type, value), '
    'body bytes, byte order)',
    'match-rule evaluation: the theorems of sections 1-6 hold for every rule predicate; the driver and section 7 '
    'instantiate it with C12\'s code models (Route/Rule.lean mkRule + Rule.match, Route/Text.lean parseRuleGen) on the '
    'bus\'s message object (Bus/RouteFull.lean ruleView: member has no class default, the others read None), for all '
    'keys: type, interface, member, path, destination, path_namespace, argN, argNpath; sender is stored and ignored '
    '(known finding), arg0namespace is evaluated or ignored as C12\'s switch Gen.Route.evaluatesArg0ns (probed from '
    'router.py by tools/tables/c12_route.py on every run) says: one switch, one matcher (Route.Rule.matchWith) for '
    'both properties',
    'the body as match rules see it (`args`: str / other per top-level argument) is an input of the MODEL, taken '
    'from txdbus\'s own unmarshalling of the sent bytes (the model is the bus\'s twin; C02 / C11 own the unmarshaller); '
    'the ORACLE takes it from the values and the signature the harness built the message from (`constructed_view`; '
    'statistic body-as-built-vs-as-unmarshalled); for the bus\'s own signals both read the delivered bytes; the rule a registration '
    'uses is the MODEL\'s reading of the rule text in the AddMatch call, compared on every AddMatch with the kwargs '
    'observed at the real router.addMatch (`rule=` in the driver output)',
    'the name table is a parameter of the model (C13 owns RequestName/ReleaseName): owner changes and the signals '
    'those functions emit are observed on the real bus and replayed into the model as effects',
    'object dispatch (C10 owns handleMethodCallMessage) is observed, not predicted: executeMethod called / '
    'router.addMatch called (with which constraints) / neither (answered by _send_err or a built-in reply)',
    'Twisted: a transport told to loseConnection is followed by connectionLost (the harness does that after the read); '
    'an exception escaping dataReceived is a lost connection',
]
ASSUMPTIONS = [
    'clients send well-formed messages (parse failures are C05; protocol version 1); one message is processed to '
    'completion before the next (the bus is single-threaded and its dbus_* methods are synchronous)',
    '"unchanged except the sender" is judged on the wire: since 84eeaa3 the body bytes and byte order are forwarded '
    'verbatim; header fields are compared as a mapping code -> (variant type, value), their order is not content',
    'the generator also writes \'\' into destination / sender (not a bus name): such messages are fed to model and bus '
    '(correspondence) but never judged, and an exception on them is a lost connection, not a finding',
    'a client holding two matching rules receives a broadcast once per rule; the statement does not count copies',
    'rule matching is judged with the DBus specification\'s "Match Rules" text for every key; left undecided (nothing '
    'demanded, as in C12): a string-valued argument of a DBus type other than the one the key asks for (OBJECT_PATH or '
    'SIGNATURE under argN / arg0namespace, SIGNATURE under argNpath, a string inside a VARIANT) whose text satisfies '
    'the constraint - txdbus unmarshals all of them to str - and constraints whose value is the empty string; '
    'the bus\'s own broadcasts (NameOwnerChanged) are judged one-sidedly: whoever receives one holds a rule it '
    'satisfies, and if anybody receives it every holder of such a rule does (whether it is emitted at all is C13\'s)',
    'methods of the bus interface that txdbus does not implement (RemoveMatch, GetId fails to encode) are answered '
    'with an error reply, which counts as answered',
    'legitimate changes that the ORACLE accepts but the MODEL does not follow yet (they show as correspondence drift, '
    'i.e. "no-failing-input-found", and need a model update, not a repair): naming on connect, an error reply to the '
    'sender for an unknown destination, honouring NO_REPLY_EXPECTED in _send_err, validating bus names in parseMessage; '
    'the bus stamping org.freedesktop.DBus as sender of its own messages is accepted by both',
]
RULE = ('a case is one history (list of operations of up to 13 connections, at most 4 alive; AddMatch rules over all keys '
        'of the rule language, texts written by the harness or by the real txdbus client) together with all '
        'per-event deliveries; distinct = distinct canonical JSON of the operation list; non-trivial = at least '
        'one message was delivered to some client other than a bus reply to its sender')

BUS = 'org.freedesktop.DBus'
BUSPATH = '/org/freedesktop/DBus'

WELL_KNOWN = ['org.ex.A', 'org.ex.B']
# names a client can ask for that coincide with strings the bus treats specially: the unchanged bus grants them
# (RequestName('org.freedesktop.DBus') answers 1); whoever holds them must still never see a message addressed to the bus
SPECIAL_NAMES = [BUS, 'org.freedesktop.DBus.Local']
IFACES = ['org.ex.I', 'org.ex.J']
MEMBERS = ['Foo', 'Bar']
PATHS = ['/x', '/y']


# --------------------------------------------------------------------------- bodies
def bodies():
    from txdbus import marshal as M
    return {
        'none': (None, None),
        's': ('s', ['hi']),
        'ii': ('ii', [1, -1]),
        'x': ('x', [-2 ** 62]),
        't': ('t', [2 ** 64 - 1]),
        'vbig': ('v', [M.UInt64(2 ** 40)]),            # F33 / 6ba9f66 regression exemplar
        'vneg': ('v', [M.Int64(-2 ** 40)]),
        'vplain': ('v', [2 ** 40]),
        'vsmall': ('v', [M.UInt32(2 ** 31)]),
        'av': ('av', [[M.UInt64(2 ** 63), 'x', M.Int32(-1), M.Int16(-7)]]),
        'asv': ('a{sv}', [{'k': M.UInt64(2 ** 40), 'b': True, 's': 'str'}]),
        'sv': ('(sv)', [['p', M.UInt32(2 ** 31)]]),
        'vv': ('v', [[M.UInt64(2 ** 50), -2 ** 50]]),
        'sss': ('sss', ['a', '', 'c']),
        'as': ('as', [['p', 'q']]),
        'd': ('d', [1.5]),
        'o': ('o', ['/a/b']),
        # a struct inside a variant decodes to a list; re-encoding from decoded values re-infers an array
        # (found by C11 as well; repaired by fixes/C11-01-bus-forwards-body-verbatim.patch)
        'vtuple': ('v', [(1, 2 ** 40)]),
        'vboolt': ('v', [(5, True)]),
        'vi64list': ('v', [[M.Int64(1), M.Int64(2 ** 40)]]),
        # bodies for argN / argNpath / arg0namespace rules
        'name': ('s', ['org.ex.A']),
        'namesub': ('s', ['org.ex.A.sub']),
        'nsx': ('ss', ['org.ex', 'x']),
        'nsnear': ('s', ['org.exx']),
        'spath': ('s', ['/x/y/']),
        'opath': ('o', ['/x/y']),
        'so': ('so', ['hi', '/x']),
        'us': ('us', [5, 'hi']),
        'g': ('g', ['ss']),
        'vs': ('v', ['hi']),
        'quote': ('ss', ["it's", 'a,b=c']),
        's13': ('s' * 13, ['a'] * 12 + ['hi']),
    }


BODY_KEYS = ['none', 's', 'ii', 'x', 't', 'vbig', 'vneg', 'vplain', 'vsmall', 'av', 'asv', 'sv', 'vv',
             'sss', 'as', 'd', 'o', 'vtuple', 'vboolt', 'vi64list']
# bodies whose arguments the argN / argNpath / arg0namespace constraints of the generated rules look at
ARG_BODY_KEYS = ['none', 's', 'sss', 'o', 'ii', 'name', 'namesub', 'nsx', 'nsnear', 'spath', 'opath', 'so', 'us', 'g',
                 'vs', 'quote', 's13', 'as']
NS_PATHS = ['/', '/x', '/y', '/x/y', '/xy', '/x/y/z']


def body_token(sig, body):
    """Token of a body the bus builds itself (signals of the name functions): decoded values."""
    if not sig:
        return 'nobody'
    return sig + ':' + hashlib.blake2s(repr(body).encode('utf-8', 'backslashreplace'), digest_size=5).hexdigest()


def raw_token(endian, sig, raw_body):
    """Token of a client's body: byte order, signature and the body bytes exactly as on the wire."""
    if not sig and not raw_body:
        return 'nobody' if endian == ord('l') else 'nobody-be'
    return '%s%s:%s' % ('' if endian == ord('l') else 'B', sig or '', hashlib.blake2s(bytes(raw_body), digest_size=5).hexdigest())


def tok(x):
    if x is None:
        return '~'
    if x == '':
        return '-'
    return str(x)


# --------------------------------------------------------------------------- full rule language: tokens for the driver
RULE_KW = ['mtype', 'sender', 'interface', 'member', 'path', 'path_namespace', 'destination', 'args', 'arg_paths',
           'arg0namespace']


def hx(s):
    return '-' if s == '' else ''.join('%06x' % ord(c) for c in s)


def enc_opt(v):
    return '~' if v is None else hx(v)


def enc_pairs(v):
    if v is None:
        return '~'
    if not v:
        return '.'
    return ','.join('%d:%s' % (i, hx(x)) for i, x in v)


def enc_rule(kw, sep=' '):
    """The kwargs of router.addMatch as the driver's 10 rule tokens (C12's format)."""
    return sep.join(enc_pairs(kw.get(k)) if k in ('args', 'arg_paths') else enc_opt(kw.get(k)) for k in RULE_KW)


def args_view(body):
    """A message body as match rules see it: every `str` is a string, everything else is 'other'."""
    if body is None:
        return None
    return [('s', str(v)) if isinstance(v, str) else ('o',) for v in body]


def enc_args(view):
    if view is None:
        return '~'
    if not view:
        return '.'
    return ','.join('s' + hx(a[1]) if a[0] == 's' else 'o' for a in view)


def sig_types(sig):
    """Top-level single complete types of a signature."""
    out, i = [], 0
    while i < len(sig):
        j = i
        while sig[j] == 'a':
            j += 1
        if sig[j] in '({':
            close = {'(': ')', '{': '}'}[sig[j]]
            depth, k = 0, j
            while True:
                if sig[k] == sig[j]:
                    depth += 1
                elif sig[k] == close:
                    depth -= 1
                    if depth == 0:
                        break
                k += 1
            j = k
        out.append(sig[i:j + 1])
        i = j + 1
    return out


def constructed_view(B, md):
    """The body of a message the harness BUILDS, as a bus sees it by the DBus type rules - from the values and the
    signature the harness chose, not from txdbus's unmarshaller: a top-level STRING / OBJECT_PATH / SIGNATURE argument is
    a string, a VARIANT is what it contains, everything else is 'other'.  -> (view, top-level types)."""
    sig, body = md['sigbody'] if 'sigbody' in md else B[md.get('body', 'none')]
    if not sig:
        return (None, [])
    types = sig_types(sig)
    view = []
    for t, v in zip(types, body):
        if t in ('s', 'o', 'g') or (t == 'v' and isinstance(v, str)):
            view.append(('s', str(v)))
        else:
            view.append(('o',))
    return (view, types)


def representable_rule(kw):
    """Can the observed kwargs be written as a rule of the model (strings, lists of (index, string))?"""
    for k, v in kw.items():
        if k not in RULE_KW:
            return False
        if k in ('args', 'arg_paths'):
            if not (isinstance(v, list) and all(isinstance(x, (tuple, list)) and len(x) == 2 and isinstance(x[0], int)
                                                 and x[0] >= 0 and isinstance(x[1], str) for x in v)):
                return False
        elif not isinstance(v, str):
            return False
    return True


# --------------------------------------------------------------------------- the network of real objects
class Step:
    __slots__ = ('kind', 'i', 'sent', 'deliv', 'named', 'lose', 'heads', 'alive', 'effects', 'exc', 'op',
                 'names_before')


_QUIET = []


def quiet_twisted_log():
    """log.err() / log.msg() of the code under test must not reach stderr (the pipeline prints the verdict)."""
    if _QUIET:
        return
    _QUIET.append(1)
    try:
        from twisted.logger import globalLogBeginner
        globalLogBeginner.beginLoggingTo([lambda event: None], redirectStandardIO=False, discardBuffer=True)
    except Exception:
        pass


class HarnessReach(Exception):
    """The harness could not reach something it looks at inside the library (a private name moved).  Never a
    finding: the history is skipped with a note."""


class Net:
    """A real Bus with scripted clients; records one Step per event."""

    def __init__(self):
        from harness import net as _sharednet
        _sharednet.no_peer_credentials()       # private switch when it exists + a fake `socket` on the transports
        self.FakeSocket = _sharednet.FakeSocket
        quiet_twisted_log()
        from txdbus import bus, message
        from twisted.internet.testing import StringTransport
        self.message = message
        self.StringTransport = StringTransport
        self.busmod = bus
        self.bus = bus.Bus()

        class Factory:
            pass
        self.factory = Factory()
        self.factory.bus = self.bus
        self.factory.protocol = bus.BusProtocol
        self.clients = []          # dicts: p, t, alive, ruled
        self.wlog = []             # global write log (client index, bytes)
        self.fdlog = []            # descriptors handed to a transport: (client index, fd, position in wlog)
        self.effects = []
        self.steps = []
        self.cur = None
        self.aborted = None
        self.model_off = None          # a link failed with an exception: the oracle goes on, the model comparison stops
        self.view_differs = 0          # messages whose body txdbus unmarshals differently from what was built
        self.ref_differs = 0           # events at which the reference owner table and the bus's own table differ
        self.stray = []                # writes to a client of this bus while this bus processed nothing
        self._wend = 0                 # length of the write log at the end of the last event of this bus
        self.unprocessed = None
        self.harness_error = None      # the harness's own reach into an internal failed (never a finding)
        self.no_model = None           # why the effects / dispatch observation is unavailable in this tree
        self.observed = []
        self._names_table = None
        try:
            self.install_observers()
        except (AttributeError, TypeError) as e:
            self.no_model = 'observation hooks unavailable (%s: %s)' % (type(e).__name__, e)

    def install_observers(self):
        real_send, real_bcast = self.bus.sendSignal, self.bus.broadcastSignal

        def sendSignal(p, member, signature=None, body=None, *a, **kw):
            b = body if isinstance(body, (list, tuple)) else [body]
            self.effects.append('sig %d %s %s %s' % (self.index_of(p), member, body_token(signature, list(b)),
                                                     enc_args(args_view(list(b)))))
            return real_send(p, member, signature, body, *a, **kw)

        def broadcastSignal(member, signature=None, body=None, *a, **kw):
            b = body if isinstance(body, (list, tuple)) else [body]
            self.effects.append('bcast %s %s %s' % (member, body_token(signature, list(b)),
                                                    enc_args(args_view(list(b)))))
            return real_bcast(member, signature, body, *a, **kw)
        self.bus.sendSignal = sendSignal
        self.bus.broadcastSignal = broadcastSignal
        # what the object dispatch did with a call to the bus is OBSERVED, not predicted: was a method executed
        # (executeMethod), was a rule registered (router.addMatch, with which constraints)
        router = getattr(self.bus, 'router', None)
        if router is None or not hasattr(router, 'addMatch'):
            cands = [v for v in vars(self.bus).values() if hasattr(v, 'addMatch') and hasattr(v, 'routeMessage')]
            if len(cands) != 1:
                raise AttributeError('the bus\'s message router was not found')
            router = cands[0]
        real_exec, real_add = self.bus.executeMethod, router.addMatch

        def executeMethod(*a, **kw):
            self.observed.append(('exec',))
            return real_exec(*a, **kw)

        def addMatch(callback, **kw):
            self.observed.append(('addmatch', dict((k, v) for k, v in kw.items() if v is not None)))
            return real_add(callback, **kw)
        self.bus.executeMethod = executeMethod
        router.addMatch = addMatch

    def index_of(self, p):
        for k, c in enumerate(self.clients):
            if c['p'] is p:
                return k
        return 99

    def names_table(self):
        """The bus's name table (name -> queue of connections): `Bus.busNames`, else the one dict attribute of the bus
        whose values are lists of connections."""
        t = getattr(self.bus, 'busNames', None)
        if isinstance(t, dict):
            return t
        protos = tuple(c['p'] for c in self.clients)
        cands = [v for v in vars(self.bus).values()
                 if isinstance(v, dict) and all(isinstance(q, list) and all(x in protos for x in q) for q in v.values())
                 and not any(v is w for w in (getattr(self.bus, 'clients', None),))]
        cands = [v for v in cands if v or True]
        if len(cands) == 1:
            return cands[0]
        raise HarnessReach('the name table of the bus was not found (Bus.busNames is gone, %d candidate dicts)' % len(cands))

    def heads(self):
        return dict((n, self.index_of(q[0])) for n, q in self.names_table().items() if q)

    # -- events ---------------------------------------------------------------
    def connect(self):
        net = self
        idx = len(self.clients)

        class T(self.StringTransport):
            lose_calls = 0
            socket = self.FakeSocket()

            def write(self, data):
                net.wlog.append((idx, bytes(data)))

            def loseConnection(self):
                self.lose_calls += 1
                net.StringTransport.loseConnection(self)

            def sendFileDescriptor(self, fd):
                net.fdlog.append((idx, fd, len(net.wlog)))
        self.check_stray('connect')
        n0 = len(self.wlog)
        p = self.busmod.BusProtocol()
        p.factory = self.factory
        t = T()
        p.makeConnection(t)
        p.dataReceived(b'\0AUTH ANONYMOUS\r\nBEGIN\r\n')
        if not p._authenticated:
            raise RuntimeError('ANONYMOUS authentication did not complete')
        self.wlog[n0:] = [e for e in self.wlog[n0:] if e[0] != idx]     # the OK line
        self._wend = len(self.wlog)
        c = {'p': p, 't': t, 'alive': True, 'ruled': False, 'views': []}
        self.clients.append(c)
        real = p.rawDBusMessageReceived

        def wrapped(raw):
            self.guarded(self.begin, 'msg', idx, raw)
            try:
                real(raw)
            except Exception as e:
                self.cur.exc = '%s: %s' % (type(e).__name__, str(e)[:200])
                self.guarded(self.end)
                raise
            self.guarded(self.end)
        p.rawDBusMessageReceived = wrapped
        st = Step()
        st.kind, st.i, st.sent, st.deliv, st.named, st.lose = 'connect', idx, None, [], None, False
        st.heads, st.alive, st.effects, st.exc, st.op = {}, [], [], None, None
        st.names_before = []
        self.steps.append(st)
        return idx

    def check_stray(self, where):
        """Everything the bus does is synchronous: between two events of THIS bus nothing may be written to its
        clients (a write that shows up here was caused by an event of another bus sharing state with this one)."""
        if len(self.wlog) != self._wend:
            for j, raw in self.wlog[self._wend:]:
                try:
                    d = show_payload(parse(self.message, raw))
                except Exception:
                    d = raw[:40].hex()
                self.stray.append({'to': j, 'before': where, 'message': d})
            self._wend = len(self.wlog)

    def guarded(self, fn, *a):
        """Run the harness's own bookkeeping; its failures (a moved internal) are the harness's, not the bus's."""
        try:
            return fn(*a)
        except HarnessReach:
            raise
        except (AttributeError, TypeError, KeyError, IndexError) as e:
            raise HarnessReach('%s in the harness\'s bookkeeping: %s' % (type(e).__name__, e))

    def begin(self, kind, i, raw):
        st = Step()
        st.kind, st.i = kind, i
        st.sent = parse(self.message, raw, sent=True) if raw is not None else None
        if st.sent is not None:
            # the ORACLE's view of the body: from the values the harness built the message from (when it knows them)
            q = self.clients[i]['views']
            cv = q.pop(0) if q else None
            st.sent['cargs'], st.sent['ctypes'] = cv if cv is not None else (st.sent['args'], st.sent['argtypes'])
            if cv is not None and cv[0] != st.sent['args']:
                self.view_differs += 1
        st.heads = self.heads()
        st.alive = [c['alive'] for c in self.clients]
        st.names_before = [c['p'].uniqueName for c in self.clients]
        st.exc = None
        st.op = None
        self.cur = st
        self.check_stray('%s of connection %d' % (kind, i))
        self._w0 = len(self.wlog)
        self._dis0 = self.clients[i]['t'].lose_calls
        self.effects = []
        self.observed = []

    def end(self):
        st = self.cur
        c = self.clients[st.i]
        st.deliv = [(j, parse(self.message, raw)) for j, raw in self.wlog[self._w0:]]
        nb = st.names_before[st.i]
        na = c['p'].uniqueName
        st.named = na if (nb is None and na is not None) else None
        st.lose = c['t'].lose_calls > self._dis0
        h1 = self.heads()
        eff = []
        for n in st.heads:
            if n not in h1:
                eff.append('unown %s' % n)
        for n, j in h1.items():
            if st.heads.get(n) != j:
                eff.append('own %s %d' % (n, j))
        st.effects = eff + self.effects
        added = [o[1] for o in self.observed if o[0] == 'addmatch']
        if added:
            st.op = ('addmatch', added[-1])
        elif any(o[0] == 'exec' for o in self.observed):
            st.op = ('exec',)
        else:
            st.op = ('always',)
        self.steps.append(st)
        self._wend = len(self.wlog)

    def feed(self, i, raws, views=None):
        """One read carrying the messages `raws` from client i; then what the reactor does.  `views`: the constructed
        view of every message that COMPLETES in this read (None: not known)."""
        c = self.clients[i]
        if not c['alive'] or self.aborted:
            return
        c['views'].extend([None] * len(raws) if views is None else views)
        n0 = len(self.steps)
        try:
            c['p'].dataReceived(b''.join(raws))
        except HarnessReach as e:
            self.harness_error = str(e)
            self.aborted = 'harness'
            return
        except Exception as e:
            # what Twisted does with an exception out of dataReceived: this connection is lost - the others go on
            self.link_failed(i, e)
            return
        got = len(self.steps) - n0
        if got != len(raws):
            # complete messages were read and the bus did not process them (or processed something else)
            self.unprocessed = {'connection': i, 'messages_in_read': len(raws), 'processed': got}
            self.aborted = 'unprocessed'
            return
        if c['t'].disconnecting:
            self.disconnect(i)

    def feed_bytes(self, i, data, views=None):
        """A read that need not end on a message boundary (no reactor follow-up)."""
        c = self.clients[i]
        if not c['alive'] or self.aborted:
            return
        c['views'].extend(views or [])
        try:
            c['p'].dataReceived(data)
        except HarnessReach as e:
            self.harness_error = str(e)
            self.aborted = 'harness'
        except Exception as e:
            self.link_failed(i, e)

    def link_failed(self, i, e):
        self.model_off = self.model_off or '%s: %s' % (type(e).__name__, str(e)[:200])
        self._wend = len(self.wlog)
        self.disconnect(i)

    def disconnect(self, i):
        from twisted.python.failure import Failure
        from twisted.internet.error import ConnectionDone
        c = self.clients[i]
        if not c['alive'] or self.aborted:
            return
        try:
            self.guarded(self.begin, 'disc', i, None)
            try:
                c['p'].connectionLost(Failure(ConnectionDone()))
            except Exception as e:
                # connectionLost itself raised: the connection is gone all the same, the others go on
                self.cur.exc = '%s: %s' % (type(e).__name__, str(e)[:200])
                self.model_off = self.model_off or self.cur.exc
            self.guarded(self.end)
        except HarnessReach as e:
            self.harness_error = str(e)
            self.aborted = 'harness'
        c['alive'] = False


KNOWN_CODES = (1, 2, 3, 4, 5, 6, 7, 8, 9)


def header_field_list(raw):
    """[(field code, signature of its variant, value)] of the header-field array, in wire order, EVERY occurrence:
    the harness's own reader (parseMessage keeps only the last occurrence of a repeated field)."""
    import struct
    from txdbus import marshal
    lend = raw[:1] == b'l'
    end = 16 + struct.unpack(('<' if lend else '>') + 'I', raw[12:16])[0]
    off, out = 16, []
    while off < end:
        off = (off + 7) // 8 * 8
        code, slen = raw[off], raw[off + 1]
        sig = raw[off + 2:off + 2 + slen].decode('ascii', 'replace')
        off += 2 + slen + 1
        n, v = marshal.unmarshal(sig, raw, off, lend, [])
        off += n
        out.append((code, sig, v[0] if v else None))
    return out


def header_fields(raw):
    """{field code: (signature of its variant, value)}: a later duplicate wins, as in parseMessage."""
    return dict((code, (sig, v)) for code, sig, v in header_field_list(raw))


def parse(message, raw, sent=False):
    m = message.parseMessage(raw, [])
    hfl = header_field_list(raw)       # read once (the harness's own reader)
    hf = dict((code, (sig, v)) for code, sig, v in hfl)       # a later duplicate wins, as in parseMessage
    counts = {}
    for code, _, _ in hfl:
        counts[code] = counts.get(code, 0) + 1
    extra = ','.join('%d:%s=%s' % (c, hf[c][0], str(hf[c][1]).encode().hex()) for c in sorted(hf)
                     if c not in KNOWN_CODES)
    d = {
        't': m._messageType, 'serial': m.serial,
        'flags': raw[2], 'version': raw[3],
        'path': getattr(m, 'path', None), 'iface': getattr(m, 'interface', None),
        'member': getattr(m, 'member', None), 'err': getattr(m, 'error_name', None),
        'rs': getattr(m, 'reply_serial', None), 'dest': m.destination, 'sender': m.sender,
        'sig': m.signature, 'body': repr(m.body) if m.signature else None,
        # the body as match rules see it, and the DBus type of every top-level argument (for the oracle)
        'args': args_view(m.body), 'argtypes': sig_types(m.signature) if m.signature else [],
        'endian': raw[0], 'rawbody': bytes(m.rawBody).hex(),
        # field code -> type of its variant, the sender field (7) left out; a mapping: order is not content
        'hfields': dict((str(c), hf[c][0]) for c in hf if c != 7),
        'hvalues': dict((str(c), repr(hf[c][1])) for c in hf if c != 7),
        'extra': extra or None,
        # every SENDER field in the bytes, in order (a receiver may take the first occurrence)
        'senders': [v for code, _, v in hfl if code == 7],
        'repeated': sorted(c for c in counts if counts[c] > 1),
    }
    if (m.sender is None or m.sender == BUS) and not sent:
        d['btok'] = body_token(m.signature, m.body)         # built by the bus
    else:
        d['btok'] = raw_token(raw[0], m.signature, m.rawBody)
    return d


def from_bus(d):
    """A delivered message that the bus built itself: txdbus's bus leaves the sender empty, a reference bus writes
    org.freedesktop.DBus; a client's message can carry neither (the bus stamps the unique name)."""
    return d['sender'] is None or d['sender'] == BUS


# --------------------------------------------------------------------------- a foreign client's serializer
def ref_serialize(endian, mtype, flags, serial, fields, body=b'', version=1):
    """A DBus message written without txdbus's `_marshal`: any flags byte, any header fields (code, type, value) in any
    order, either byte order.  Types of header values: u, s, o, g."""
    import struct
    e = '<' if endian == 'l' else '>'

    def pad(n, a):
        return b'\0' * ((-n) % a)
    arr = b''
    for code, sig, v in fields:
        arr += pad(16 + len(arr), 8)
        arr += bytes([code, len(sig)]) + sig.encode() + b'\0'
        if sig == 'u':
            arr += pad(16 + len(arr), 4) + struct.pack(e + 'I', v)
        elif sig in ('s', 'o'):
            b = v.encode('utf-8')
            arr += pad(16 + len(arr), 4) + struct.pack(e + 'I', len(b)) + b + b'\0'
        elif sig == 'g':
            b = v.encode('ascii')
            arr += bytes([len(b)]) + b + b'\0'
        else:
            raise ValueError(sig)
    hdr = endian.encode() + bytes([mtype, flags, version]) + struct.pack(e + 'II', len(body), serial)
    hdr += struct.pack(e + 'I', len(arr)) + arr
    return hdr + pad(len(hdr), 8) + body


FIELD_OF = {'path': (1, 'o'), 'iface': (2, 's'), 'member': (3, 's'), 'err': (4, 's'), 'rs': (5, 'u'),
            'dest': (6, 's'), 'forged': (7, 's')}
REQUIRED = {1: ['path', 'member'], 2: ['rs'], 3: ['err', 'rs'], 4: ['path', 'iface', 'member']}


def build_foreign(B, md):
    """md as for `build`, plus md['foreign'] = {'flags': whole flags byte, 'opt': [names of fields to add although the
    type does not need them], 'x': [[code, type, value], ...] unknown fields, 'rev': reversed field order}."""
    from txdbus import marshal
    f = md['foreign']
    t = md['t']
    sig, body = md['sigbody'] if 'sigbody' in md else B[md.get('body', 'none')]
    lend = not md.get('be')
    bin_body = b''.join(marshal.marshal(sig, body, lendian=lend)[1]) if sig else b''
    defaults = {'path': '/x', 'member': 'Foo', 'iface': IFACES[0], 'err': 'org.ex.Error', 'rs': 1}
    names = list(REQUIRED[t])
    if t == 1 and md.get('iface') is not None:
        names.append('iface')
    for n in ('dest', 'forged'):
        if md.get(n) is not None and n not in names:
            names.append(n)
    for n in f.get('opt', []):
        if n not in names:
            names.append(n)
    fields = []
    for n in names:
        code, ty = FIELD_OF[n]
        v = md.get(n)
        fields.append((code, ty, v if v is not None else defaults[n]))
    if sig:
        fields.append((8, 'g', sig))
    for code, ty, v in f.get('x', []):
        fields.append((code, ty, v))
    if f.get('rev'):
        fields.reverse()
    # repeated header fields: 'pre' goes in front of everything (the regular occurrence is the LAST one, which is the
    # one parseMessage keeps), 'post' behind everything (then the regular occurrence is the first)
    fields = [tuple(x) for x in f.get('pre', [])] + fields + [tuple(x) for x in f.get('post', [])]
    return ref_serialize('l' if lend else 'B', t, f.get('flags', md.get('flags', 0)), md['serial'], fields, bin_body)


# --------------------------------------------------------------------------- building messages
TEXT_KEYS = ('type', 'sender', 'interface', 'member', 'path', 'path_namespace', 'destination')


def arg_items(rule):
    """[(index, 'arg' | 'argpath', value)] of a rule dict, in index order (argN before argNpath)."""
    out = []
    for k, v in rule.items():
        if k.startswith('arg') and k != 'arg0namespace':
            if k.endswith('path'):
                out.append((int(k[3:-4]), 'argpath', v))
            else:
                out.append((int(k[3:]), 'arg', v))
    return sorted(out)


def quote_value(v):
    """DBus match-rule quoting: the value between apostrophes, an apostrophe inside it written as '\\''."""
    return "'" + v.replace("'", "'\\''") + "'"


def rule_text(rule):
    """A rule dict (keys as in the rule text: type, sender, ..., argN, argNpath, arg0namespace; '_via': 'client' =
    rendered by the real DBusClientConnection.addMatch) as rule text."""
    if isinstance(rule, str):
        return rule
    if rule.get('_via') == 'client':
        t = client_rule_text(rule)
        if t is not None:
            return t
    items = ['%s=%s' % (k, quote_value(rule[k])) for k in TEXT_KEYS if k in rule]
    items += ['%s%d%s=%s' % ('arg', i, 'path' if kind == 'argpath' else '', quote_value(v))
              for i, kind, v in arg_items(rule)]
    if 'arg0namespace' in rule:
        items.append('arg0namespace=%s' % quote_value(rule['arg0namespace']))
    return ','.join(items)


_CLIENT = {}
CLIENT_TEXTS = {'n': 0, 'fallback': 0}


def client_connection():
    """A real DBusClientConnection after its handshake and Hello, on a StringTransport (None: not constructible in
    this tree - the harness then writes the text itself)."""
    if 'conn' in _CLIENT:
        return _CLIENT['conn']
    _CLIENT['conn'] = None
    try:
        from twisted.internet.testing import StringTransport
        from txdbus import client, message
        c = client.DBusClientConnection()
        c.factory = client.DBusClientFactory()
        t = StringTransport()
        c.makeConnection(t)
        t.clear()
        c.dataReceived(b'OK 1234deadbeef\r\n')
        raw = t.value()
        t.clear()
        hello = message.parseMessage(raw[raw.index(b'BEGIN\r\n') + 7:], [])
        c.dataReceived(message.MethodReturnMessage(hello.serial, body=[':1.7'], signature='s',
                                                   destination=':1.7').rawMessage)
        if c.busName == ':1.7':
            _CLIENT['conn'] = (c, t, message)
    except Exception:
        _CLIENT['conn'] = None
    return _CLIENT['conn']


def client_rule_text(rule):
    """The text the real txdbus client sends in AddMatch for these constraints (None: could not be obtained)."""
    conn = client_connection()
    if conn is None:
        CLIENT_TEXTS['fallback'] += 1
        return None
    c, t, message = conn
    kw = {}
    for k in ('sender', 'interface', 'member', 'path', 'path_namespace', 'destination', 'arg0namespace'):
        if k in rule:
            kw[k] = rule[k]
    if 'type' in rule:
        kw['mtype'] = rule['type']
    items = arg_items(rule)
    if any(kind == 'arg' for _, kind, _ in items):
        kw['arg'] = [(i, v) for i, kind, v in items if kind == 'arg']
    if any(kind == 'argpath' for _, kind, _ in items):
        kw['arg_path'] = [(i, v) for i, kind, v in items if kind == 'argpath']
    try:
        t.clear()
        c.addMatch(lambda m: None, **kw).addErrback(lambda f: None)
        raw = t.value()
        t.clear()
        m = message.parseMessage(raw, [])
        if m.member == 'AddMatch' and m.signature == 's':
            CLIENT_TEXTS['n'] += 1
            return m.body[0]
    except Exception:
        pass
    CLIENT_TEXTS['fallback'] += 1
    return None


def build(message, B, md):
    """md: t, serial, flags, dest, forged, path, iface, member, err, rs, body(key) or sigbody=(sig, body)."""
    if md.get('foreign'):
        return build_foreign(B, md)
    t = md['t']
    sig, body = md['sigbody'] if 'sigbody' in md else B[md.get('body', 'none')]
    if t == 1:
        m = message.MethodCallMessage(md.get('path') or '/x', md.get('member') or 'Foo',
                                      interface=md.get('iface'), signature=sig, body=body)
    elif t == 2:
        m = message.MethodReturnMessage(md.get('rs') or 1, signature=sig, body=body)
    elif t == 3:
        m = message.ErrorMessage(md.get('err') or 'org.ex.Error', md.get('rs') or 1, signature=sig, body=body)
    else:
        m = message.SignalMessage(md.get('path') or '/x', md.get('member') or 'Foo', md.get('iface') or IFACES[0],
                                  signature=sig, body=body)
    fl = md.get('flags', 0)
    if md.get('be'):
        # the same message in big-endian byte order (txdbus itself only ever writes little-endian bodies): the
        # harness's own serializer, the constructor above has validated the parts
        return build_foreign(B, dict(md, foreign={'flags': fl}))
    fwd = remarshal_entry(message)
    if fwd is not None:
        # as a txdbus peer writes it: the library's own marshaller (located by behaviour, `_marshal` unless renamed)
        try:
            m.destination = md.get('dest')
            m.sender = md.get('forged')
            m.serial = md['serial']
            m.expectReply = not (fl & 1)
            m.autoStart = not (fl & 2)
            getattr(m, fwd[0])(**{fwd[1]: False})
            return m.rawMessage
        except (AttributeError, TypeError):
            _REMARSHAL[id(message)] = None
    return build_foreign(B, dict(md, foreign={'flags': fl}))


_REMARSHAL = {}
REACH_NOTES = []


def remarshal_entry(message):
    """(method name, new-serial parameter, raw-body parameter) of DBusMessage's marshalling entry point, located once per
    module by its signature (harness/c03_probe.forward_call); None when it cannot be found: the harness then writes
    every message with its own serializer."""
    key = id(message)
    if key not in _REMARSHAL:
        try:
            from harness import c03_probe
            _REMARSHAL[key] = c03_probe.forward_call(message)
        except Exception:
            _REMARSHAL[key] = None
        if _REMARSHAL[key] is None:
            REACH_NOTES.append('the marshalling entry point of DBusMessage was not found: all client messages are written '
                               'by the harness\'s own serializer')
    return _REMARSHAL[key]


def op_to_msgs(op, names):
    """Expand one history operation into message descriptions.  `names[i]` = unique name of client i as
    known so far (used only to address '@k' destinations)."""
    k = op[0]
    if k == 'hello':
        return [dict(t=1, serial=op[2], path=BUSPATH, iface=BUS, member='Hello', dest=BUS)]
    if k == 'req':
        return [dict(t=1, serial=op[2], path=BUSPATH, iface=BUS, member='RequestName', dest=BUS,
                     sigbody=('su', [op[3], op[4]]), flags=op[5], forged=op[6] if len(op) > 6 else None)]
    if k == 'rel':
        return [dict(t=1, serial=op[2], path=BUSPATH, iface=BUS, member='ReleaseName', dest=BUS,
                     sigbody=('s', [op[3]]), flags=op[4])]
    if k == 'match':
        rule = op[3]
        if isinstance(rule, dict):
            rule = dict(rule)
            for key in ('sender', 'destination'):
                v = rule.get(key)
                if isinstance(v, str) and v.startswith('@'):
                    j = int(v[1:])
                    rule[key] = names[j] if j < len(names) and names[j] else ':1.%d' % (90 + j)
        return [dict(t=1, serial=op[2], path=BUSPATH, iface=BUS, member='AddMatch', dest=BUS,
                     sigbody=('s', [rule_text(rule)]), flags=op[4])]
    if k == 'bus':
        kind, arg, fl = op[3], op[4], op[5]
        d = dict(t=1, serial=op[2], path=BUSPATH, iface=BUS, member=kind, dest=BUS, flags=fl)
        if kind in ('GetNameOwner', 'ListQueuedOwners', 'RemoveMatch'):
            d['sigbody'] = ('s', [arg])
        elif kind == 'badpath':
            d.update(path='/nope', member='GetId')
        elif kind == 'badsig':
            d.update(member='GetId', sigbody=('s', ['x']))
        elif kind == 'noiface':
            d.update(member='GetNameOwner', iface=None, sigbody=('s', [arg]))
        elif kind == 'Ping':
            d.update(iface='org.freedesktop.DBus.Peer')
        elif kind == 'Introspect':
            d.update(iface='org.freedesktop.DBus.Introspectable')
        return [d]
    if k == 'msg':
        return [resolve_at(dict(op[2]), names)]
    if k == 'burst':
        out = []
        for sub in op[2]:
            out.extend(op_to_msgs(sub, names))
        return out
    raise ValueError(op)


def resolve_at(md, names):
    def res(v):
        if isinstance(v, str) and v.startswith('@'):
            j = int(v[1:])
            return names[j] if j < len(names) and names[j] else ':1.%d' % (90 + j)
        return v
    for f in ('dest', 'forged'):
        md[f] = res(md.get(f))
    if md.get('foreign'):
        fo = dict(md['foreign'])
        for k in ('pre', 'post'):
            if fo.get(k):
                fo[k] = [[c, t, res(v)] for c, t, v in fo[k]]
        md['foreign'] = fo
    return md


def parse_rule(text):
    """Rule text -> dict of its constraints, read with the grammar of the DBus specification ("Match Rules": comma
    separated key=value; an apostrophe opens / closes a quoted stretch in which every character is literal; outside
    quotes a backslash followed by an apostrophe is an apostrophe).  None: not a rule this oracle can read (no '=',
    unterminated quote, unknown key, a key twice, an argument index that is not a decimal number <= 63): nothing is
    expected of the bus for it (it must not be held against anybody either: the caller records no rule)."""
    out = {}
    i, n = 0, len(text)
    if n == 0:
        return out
    while True:
        j = text.find('=', i)
        if j < 0:
            return None
        key = text[i:j]
        if ',' in key or "'" in key:
            return None
        i = j + 1
        val, quoted = [], False
        while i < n:
            c = text[i]
            if quoted:
                if c == "'":
                    quoted = False
                else:
                    val.append(c)
            elif c == "'":
                quoted = True
            elif c == ',':
                break
            elif c == '\\' and text[i + 1:i + 2] == "'":
                val.append("'")
                i += 1
            else:
                val.append(c)
            i += 1
        if quoted:
            return None
        if key in TEXT_KEYS or key == 'arg0namespace':
            pass
        elif key.startswith('arg'):
            num = key[3:-4] if key.endswith('path') else key[3:]
            if not (num.isascii() and num.isdigit()) or int(num) > 63:
                return None
            key = 'arg%d%s' % (int(num), 'path' if key.endswith('path') else '')
        else:
            return None
        if key in out:
            return None
        out[key] = ''.join(val)
        if i >= n:
            return out
        i += 1          # the comma
        if i >= n:
            return None     # trailing comma


# --------------------------------------------------------------------------- running a history
def apply_op(net, B, op):
    """One operation of a history on one bus."""
    k = op[0]
    if k == 'connect':
        net.connect()
    elif k == 'disc':
        if op[1] < len(net.clients):
            net.disconnect(op[1])
    elif k == 'garbage':
        # a complete frame that is not a DBus message (message type 9): parsing raises out of dataReceived, which is
        # a lost connection for THIS client; everybody else goes on
        i = op[1]
        if i < len(net.clients) and net.clients[i]['alive']:
            import struct
            net.feed_bytes(i, b'l\x09\x00\x01' + struct.pack('<III', 0, op[2], 0))
    elif k == 'split':
        # ['split', i, op_i, cut, j, op_j]: the first `cut` bytes of i's message, then a whole read from j, then
        # the rest of i's message: the bus sees j's message first, then i's
        _, i, op_i, cut, j, op_j = op
        if max(i, j) >= len(net.clients) or not (net.clients[i]['alive'] and net.clients[j]['alive']) or i == j:
            return
        names = [c['p'].uniqueName for c in net.clients]
        mds_i, mds_j = op_to_msgs(op_i, names), op_to_msgs(op_j, names)
        raw_i = b''.join(build(net.message, B, md) for md in mds_i)
        raw_j = [build(net.message, B, md) for md in mds_j]
        cut = max(1, min(len(raw_i) - 1, cut))
        net.feed_bytes(i, raw_i[:cut], views=[constructed_view(B, md) for md in mds_i])
        net.feed(j, raw_j, views=[constructed_view(B, md) for md in mds_j])
        if net.clients[i]['alive']:
            net.feed(i, [raw_i[cut:]], views=[])
    else:
        i = op[1]
        if i >= len(net.clients) or not net.clients[i]['alive']:
            return
        names = [c['p'].uniqueName for c in net.clients]
        # a client that has not been named yet learns its name only from Hello: '@i' then is a guess
        mds = op_to_msgs(op, names)
        raws = [build(net.message, B, md) for md in mds]
        net.feed(i, raws, views=[constructed_view(B, md) for md in mds])


def net_lines(net):
    """One driver line per Step of one bus."""
    lines = []
    for st in net.steps:
        if st.kind == 'connect':
            lines.append('connect')
        elif st.kind == 'disc':
            lines.append('disc %d %d %s' % (st.i, len(st.effects), ' '.join(st.effects)))
        else:
            s = st.sent
            if st.op[0] == 'addmatch':
                kw = st.op[1]
                if not representable_rule(kw):
                    raise RuntimeError('the harness generated a rule text whose kwargs the model has no twin for: %r'
                                       % (kw,))
                opt = 'addmatch ' + enc_rule(kw)
            elif st.op[0] == 'always':
                opt = 'always'
            else:
                opt = 'exec %d %s' % (len(st.effects), ' '.join(st.effects))
            lines.append('msg %d %d %d %d %s %s %s %s %s %s %s %s %s %s %s' % (
                st.i, s['t'], s['serial'], s['flags'], tok(s['path']), tok(s['iface']), tok(s['member']),
                tok(s['err']), tok(s['rs']), tok(s['dest']), tok(s['sender']), s['extra'] or '-', s['btok'],
                enc_args(s['args']), opt))
    return [ln.rstrip() for ln in lines]


def run_histories(ops):
    """Apply the history to fresh real buses.  An operation `['on', k, op]` goes to bus k (its own `Bus()`, its own
    clients), any other operation to bus 0: several buses of one process, interleaved event by event.  Returns
    [(net, driver lines)] per bus, in bus order."""
    nets = {}
    B = bodies()

    def net_of(k):
        if k not in nets:
            nets[k] = Net()
        return nets[k]
    net_of(0)
    for op in ops:
        k = 0
        if op[0] == 'on':
            k, op = op[1], op[2]
        net = net_of(k)
        if net.aborted:
            continue
        apply_op(net, B, op)
    out = []
    for k in sorted(nets):
        nets[k].check_stray('the end of the history')
        out.append((nets[k], net_lines(nets[k])))
    return out


def run_history(ops):
    """Single-bus histories: (net, lines) of bus 0."""
    return run_histories(ops)[0]


def show_payload(d):
    if not from_bus(d):
        return 'F %d %d %d %s %s %s %s %s %s %s %s %s' % (
            d['t'], d['serial'], d['flags'], tok(d['path']), tok(d['iface']), tok(d['member']), tok(d['err']),
            tok(d['rs']), tok(d['dest']), tok(d['sender']), d['extra'] or '-', d['btok'])
    if d['t'] == 4:
        return 'S %s %s %s %s %s' % (tok(d['path']), tok(d['iface']), tok(d['member']), tok(d['dest']), d['btok'])
    if d['t'] == 2 and d['dest'] is None and d['sig'] == 's':
        import ast
        return 'H %s %s' % (tok(d['rs']), tok(ast.literal_eval(d['body'])[0]))
    if d['t'] in (2, 3):
        return 'R %s %s' % (tok(d['rs']), tok(d['dest']))
    return 'unexpected-bus-message type=%d' % d['t']


def impl_lines(net):
    out = []
    for st in net.steps:
        if st.kind == 'connect':
            out.append('ok %d' % st.i)
        else:
            named = '%d:%s' % (st.i, st.named) if st.named else '~'
            ds = ''.join(' ; %d %s' % (j, show_payload(d)) for j, d in st.deliv)
            # the kwargs the real router.addMatch was called with (the model prints its own reading of the rule text)
            rule = ' rule=' + enc_rule(st.op[1], '/') if (st.kind == 'msg' and st.op and st.op[0] == 'addmatch') else ''
            out.append('named=%s lose=%d n=%d%s%s' % (named, 1 if st.lose else 0, len(st.deliv), ds, rule))
    return out


# --------------------------------------------------------------------------- the oracle (reference router)
MTYPES = {'method_call': 1, 'method_return': 2, 'error': 3, 'signal': 4}


def rule_matches_spec(rule, m, heads=None, names=None, ignore_sender=False, ignore_arg0ns=False, bus_built=False):
    """Does message `m` satisfy match rule `rule`?  Written from the "Match Rules" section of the DBus specification,
    for every key of the rule language.  -> True / False / None (None: the specification text does not settle this
    pair for txdbus - see below - and nothing is demanded).

      type            the message type
      sender          `m['sender']` is the TRUE unique name of the originator; a well-known value means the current
                      owner of that name (heads: name -> connection); messages built by the bus come from
                      org.freedesktop.DBus
      interface, member, path, destination      the header field is there and equal
      path_namespace  "matches messages which are sent from or to an object for which the object path is either the
                      given value, or that value followed by one or more path components" ('/' contains everything)
      argN            "only arguments of type STRING can be matched in this way": the N-th argument exists, is a
                      STRING and equals the value
      argNpath        "arguments whose type is either STRING or OBJECT_PATH": equal, "or either the string given in
                      the match rule or the appropriate message argument ends with '/' and is a prefix of the other"
      arg0namespace   "messages whose first argument is of type STRING, and is a bus name or interface name within
                      the specified namespace": equal, or the value followed by '.' is a prefix of it

    Undecided (None), as in C12: a string-valued argument of another DBus type (OBJECT_PATH / SIGNATURE under argN or
    arg0namespace, SIGNATURE under argNpath, a string inside a VARIANT) whose text satisfies the constraint - txdbus
    unmarshals all of them to `str`; and a constraint whose value is the empty string (no message can satisfy
    interface='', the router drops the constraint)."""
    for k in TEXT_KEYS + ('arg0namespace',):
        if rule.get(k) == '':
            return None
    undecided = False
    if 'type' in rule:
        if MTYPES.get(rule['type']) != m['t']:
            return False
    if 'sender' in rule and not ignore_sender:
        v = rule['sender']
        if bus_built:
            if v != BUS:
                return False
        elif v.startswith(':'):
            if m['sender'] != v:
                return False
        elif v == BUS:
            return False               # only messages built by the bus itself come from org.freedesktop.DBus
        else:
            owner = (heads or {}).get(v)
            if owner == '?':
                undecided = True       # the reference cannot say who owns that name right now
            elif owner is None or names is None or names[owner] != m['sender']:
                return False
    for k, f in (('interface', 'iface'), ('member', 'member'), ('path', 'path'), ('destination', 'dest')):
        if k in rule and m[f] != rule[k]:
            return False
    if 'path_namespace' in rule:
        ns, p = rule['path_namespace'], m['path']
        if not isinstance(p, str):
            return False
        if not (ns == '/' or p == ns or p[:len(ns) + 1] == ns + '/'):
            return False
    view = m.get('args') or []
    types = m.get('argtypes') or []

    def typ(idx):
        return types[idx] if idx < len(types) else None
    for idx, kind, val in arg_items(rule):
        if idx >= len(view) or view[idx][0] != 's':
            return False
        a = view[idx][1]
        if kind == 'arg':
            if a != val:
                return False
            if typ(idx) != 's':
                undecided = True
        else:
            if not (a == val or (val[-1:] == '/' and a[:len(val)] == val) or (a[-1:] == '/' and val[:len(a)] == a)):
                return False
            if typ(idx) not in ('s', 'o'):
                undecided = True
    if 'arg0namespace' in rule and not ignore_arg0ns:
        ns = rule['arg0namespace']
        if not view or view[0][0] != 's':
            return False
        a = view[0][1]
        if not (a == ns or a[:len(ns) + 1] == ns + '.'):
            return False
        if typ(0) != 's':
            undecided = True
    return None if undecided else True


def judge_receivers(held_of, alive_set, got, match):
    """Who must / may receive a broadcast: `match(rule, **relax)` is the tri-state matcher.  Returns
    (missed, sender_ignored, arg0ns_ignored, unexplained): connections that hold a rule the signal satisfies and got
    nothing, and connections that got it although they hold no rule it satisfies (or may satisfy) - split by which
    unevaluated constraint explains the delivery."""
    def some(j, want, **kw):
        return any(want(match(r, **kw)) for r in held_of(j))
    must = set(j for j in alive_set if some(j, lambda v: v is True))
    may = set(j for j in alive_set if some(j, lambda v: v is not False))
    over = set(got) - may
    s_ign = set(j for j in over if some(j, lambda v: v is not False, ignore_sender=True))
    a_ign = set(j for j in over - s_ign if some(j, lambda v: v is not False, ignore_arg0ns=True))
    both = set(j for j in over - s_ign - a_ign if some(j, lambda v: v is not False, ignore_sender=True,
                                                         ignore_arg0ns=True))
    return must - set(got), s_ign | both, a_ign, over - s_ign - a_ign - both


def malformed_by_generator(m):
    """The generator deliberately writes '' into the destination / sender field: not a valid bus name.  A bus may
    refuse such a message (exception out of dataReceived = lost connection) or drop it: never judged."""
    return m is not None and (m['dest'] == '' or m['sender'] == '')


def is_addmatch_call(m):
    return (m['t'] == 1 and m['dest'] == BUS and m['member'] == 'AddMatch' and m['path'] == BUSPATH
            and m['iface'] in (None, BUS) and m['sig'] == 's')


def is_hello_call(m):
    return m['t'] == 1 and m['dest'] == BUS and m['member'] == 'Hello'


def compare_forwarded(add, d, m):
    """`d` (delivered) against `m` (sent): everything but the sender field.  Header fields as a mapping
    code -> (type, value): their order is not content."""
    if d['t'] != m['t'] or d['serial'] != m['serial']:
        add('forwarded-content-changed', 'the bus changed type/serial of a forwarded message',
            (d['t'], d['serial']), (m['t'], m['serial']))
        return
    if d['flags'] != m['flags']:
        if (d['flags'] & 3) == (m['flags'] & 3):
            add('forward-clears-flag-bits', 'a message sent with flags byte 0x%02x is forwarded with flags byte 0x%02x'
                % (m['flags'], d['flags']), d['flags'], m['flags'])
        else:
            add('forwarded-content-changed', 'the bus changed the flags of a forwarded message', d['flags'], m['flags'])
        return
    sent_codes, got_codes = set(m['hfields']), set(d['hfields'])
    if sent_codes - got_codes:
        lost = sorted(sent_codes - got_codes, key=int)
        add('forward-drops-unknown-header-fields', 'header field(s) %s (code:type %s) of a forwarded message are '
            'missing at the destination' % (lost, ['%s:%s' % (c, m['hfields'][c]) for c in lost]),
            d['hfields'], m['hfields'])
        return
    if got_codes - sent_codes:
        add('forwarded-content-changed', 'the bus added header field(s) %s' % sorted(got_codes - sent_codes),
            d['hfields'], m['hfields'])
        return
    if d['hfields'] != m['hfields']:
        add('forwarded-header-field-retyped', 'the bus changed the wire type of a header field of a forwarded '
            'message (code -> type %s, sent %s)' % (d['hfields'], m['hfields']), d['hfields'], m['hfields'])
        return
    if d['hvalues'] != m['hvalues']:
        diff = sorted(c for c in m['hvalues'] if d['hvalues'][c] != m['hvalues'][c])
        add('forwarded-content-changed', 'the bus changed the value of header field(s) %s' % diff,
            dict((c, d['hvalues'][c]) for c in diff), dict((c, m['hvalues'][c]) for c in diff))
        return
    if d['body'] != m['body'] or d['sig'] != m['sig']:
        add('forwarded-content-changed', 'the bus changed the body of a forwarded message', (d['sig'], d['body']),
            (m['sig'], m['body']))
        return
    if d['endian'] != m['endian'] or d['rawbody'] != m['rawbody']:
        add('forwarded-body-reencoded', 'the bus re-encoded the body of a forwarded message (the decoded values are '
            'equal)', (d['endian'], d['rawbody']), (m['endian'], m['rawbody']))


class RefNames:
    """Who owns a well-known name, from the HISTORY alone (never from the bus's own table): the name-ownership rules
    of the DBus specification as property C13 states them.  Per name a queue of [connection, allow_replacement],
    head = owner.
      RequestName(c, n, flags)   nobody owns n: c owns it.  c owns it: its allow flag is updated.  Somebody else does:
                                 REPLACE_EXISTING and the owner allowed replacement -> c owns it, the former owner is
                                 out; otherwise DO_NOT_QUEUE -> c is out of the queue; otherwise c waits (once) and its
                                 allow flag is the one of its LATEST request.
      ReleaseName(c, n)          c leaves the queue of n; the longest-waiting connection becomes the owner.
      disconnect(c)              c leaves every queue.
    A replaced owner is taken out of the queue (C13's specification and txdbus agree on that instance; the DBus text
    would let it wait when it had not asked for DO_NOT_QUEUE): after a replacement the name is marked `unsure` until
    the replaced connection asks again, releases or leaves - nothing is demanded for an unsure name whose answer
    depends on that choice."""

    def __init__(self):
        self.q = {}
        self.maybe = {}        # name -> connections that the DBus text would still have waiting
        self.anchor = {}       # name -> the connection that replaced the owner (owner under both readings while it stays)

    def owner(self, n):
        q = self.q.get(n)
        return q[0][0] if q else None

    def heads(self):
        return dict((n, q[0][0]) for n, q in self.q.items() if q)

    def ambiguous(self, n):
        """The owner of n could be somebody else under the other reading (a replaced owner still waiting): a replaced
        connection has not spoken since, and the connection that replaced it is no longer the owner."""
        return bool(self.maybe.get(n)) and self.owner(n) != self.anchor.get(n)

    def heads_for_rules(self):
        h = self.heads()
        for n in self.maybe:
            if self.ambiguous(n):
                h[n] = '?'
        return h

    def _drop(self, n, c):
        q = self.q.get(n, [])
        q[:] = [e for e in q if e[0] != c]
        if not q:
            self.q.pop(n, None)

    def request(self, c, n, flags):
        allow, replace, noqueue = bool(flags & 1), bool(flags & 2), bool(flags & 4)
        self.maybe.get(n, set()).discard(c)
        q = self.q.setdefault(n, [])
        if not q:
            q.append([c, allow])
        elif q[0][0] == c:
            q[0][1] = allow
        elif replace and q[0][1]:
            old = q[0][0]
            q[:] = [[c, allow]] + [e for e in q[1:] if e[0] != c]
            self.maybe.setdefault(n, set()).add(old)
            self.anchor[n] = c
        elif noqueue:
            self._drop(n, c)
        else:
            for e in q:
                if e[0] == c:
                    e[1] = allow
                    break
            else:
                q.append([c, allow])

    def release(self, c, n):
        self.maybe.get(n, set()).discard(c)
        self._drop(n, c)

    def disconnect(self, c):
        for n in list(self.q):
            self._drop(n, c)
        for n in self.maybe:
            self.maybe[n].discard(c)


def name_call(m):
    """('request', name, flags) / ('release', name) when `m` is a well-formed RequestName / ReleaseName call to the bus."""
    import ast
    if not (m['t'] == 1 and m['dest'] == BUS and m['path'] == BUSPATH and m['iface'] in (None, BUS)):
        return None
    try:
        body = ast.literal_eval(m['body']) if m['body'] else None
    except (ValueError, SyntaxError):
        return None
    import re
    if not (body and isinstance(body[0], str)
            and re.match(r'^[A-Za-z_-][A-Za-z0-9_-]*(\.[A-Za-z_-][A-Za-z0-9_-]*)+$', body[0]) and len(body[0]) <= 255):
        return None                    # not a well-known bus name: a bus refuses it
    if m['member'] == 'RequestName' and m['sig'] == 'su':
        return ('request', body[0], int(body[1]))
    if m['member'] == 'ReleaseName' and m['sig'] == 's':
        return ('release', body[0])
    return None


def oracle(net):
    """Judge the implementation's trace against the property statement.  Returns a list of
    (key, what, observed, expected)."""
    import ast
    V = []
    nclients = len(net.clients)
    names = [None] * nclients          # allocated unique names, by connection
    ever = {}                          # name -> connection it was first given to
    held = [[] for _ in range(nclients)]
    ref = RefNames()                   # owners of well-known names, from the history alone
    opaque = [False] * nclients        # holds a registration whose text this oracle could not read: not judged
    dead_rules = [[] for _ in range(nclients)]
    helloed = [False] * nclients
    alive = [False] * nclients
    recv = [[] for _ in range(nclients)]   # forwarded messages per receiver, in arrival order
    sent_order = {}                         # (i, dest) -> serials in send order

    def add(key, what, observed=None, expected=None):
        V.append((key, what, observed, expected))

    for sw in net.stray:
        add('delivery-outside-any-event', 'connection %(to)d of this bus was written to while this bus processed nothing '
            '(found before %(before)s): %(message)s' % sw, sw['message'], 'nothing is written between two events of a bus')
    for st in net.steps:
        i = st.i
        if st.kind == 'connect':
            alive[i] = True
            continue
        m = st.sent
        heads = ref.heads()                # before this event
        rule_heads = ref.heads_for_rules()
        # statistic only (never part of a judgement): does the bus's own table say the same?
        if heads != st.heads:
            net.ref_differs += 1
        if st.exc:
            # the link that raised is dropped (the harness does what Twisted does), everybody else goes on
            if not malformed_by_generator(m):
                low = st.exc
                if low.startswith('TypeError') and 'parseMessage' in low:
                    add('bus-parse-typeerror', 'the bus raised %s on a received message' % st.exc, st.exc, 'message processed')
                elif low.startswith('error') or 'struct' in low or 'format requires' in low:
                    add('bus-reencode-fails', 'the bus could not re-serialise a valid message: %s' % st.exc, st.exc,
                        'message forwarded unchanged')
                else:
                    add('bus-raises-on-message', 'the bus raised %s while handling a well-formed event' % st.exc, st.exc,
                        'event handled')
            if st.kind == 'disc':
                alive[i] = False
                dead_rules[i] = held[i]
                held[i] = []
                ref.disconnect(i)
            continue                   # what this half-finished event delivered is not judged
        # ---- names: whenever the bus gives a connection its name (txdbus: on its first message; on connect would be
        # just as good), the name must be fresh and must stay
        for j in range(len(st.names_before)):
            cur = st.names_before[j]
            if j == i and st.kind == 'msg':
                cur = net_name_after(net, st)
            if names[j] is None:
                if cur is not None:
                    names[j] = cur
                    if cur in ever:
                        add('unique-name-reused', 'unique name %s given to connection %d was given to connection %d '
                            'before' % (cur, j, ever[cur]), cur, 'a fresh name')
                    else:
                        ever[cur] = j
                elif j == i and st.kind == 'msg':
                    add('no-unique-name', 'connection %d sent a message and has no unique name' % i)
            elif cur != names[j]:
                add('unique-name-changed', 'connection %d was %s and now is %s' % (j, names[j], cur))
        fw = [(j, d) for j, d in st.deliv if not from_bus(d)]
        bo = [(j, d) for j, d in st.deliv if from_bus(d)]
        # ---- nobody who is gone receives anything
        for j, d in st.deliv:
            if not alive[j] or (st.kind == 'disc' and j == i):
                if from_bus(d) and d['t'] == 4 and d['dest'] is not None:
                    continue           # sendSignal(p, ...) by a name function to a dead queue member: C13's
                if dead_rules[j] or (st.kind == 'disc' and j == i and held[j]):
                    add('rules-of-disconnected-client-keep-firing',
                        'connection %d (%s) disconnected, yet its match rule still delivers to its transport' % (j, names[j]),
                        show_payload(d), 'no delivery to a disconnected connection')
                else:
                    add('delivery-to-disconnected-client', 'connection %d is gone and still receives a message' % j,
                        show_payload(d), 'no delivery')
        # ---- signals the bus itself broadcasts (NameOwnerChanged): whoever gets one holds a rule it satisfies, and
        # if anybody gets it, every holder of such a rule does (whether the bus should emit it at all is C13's)
        groups = {}
        for j, d in bo:
            if d['t'] == 4 and d['dest'] is None:
                groups.setdefault((d['path'], d['iface'], d['member'], d['sig'], d['body']), []).append((j, d))
        for gkey, items in sorted(groups.items(), key=lambda kv: repr(kv[0])):
            sigmsg = items[0][1]
            listeners = set(j for j in range(nclients) if alive[j] and not (st.kind == 'disc' and j == i)
                            and not opaque[j])
            got_b = set(j for j, _ in items if j in listeners)

            def match_b(r, **kw):
                return rule_matches_spec(r, sigmsg, rule_heads, names, bus_built=True, **kw)
            missed, s_ign, a_ign, rest = judge_receivers(lambda j: held[j], listeners, got_b, match_b)
            what = 'the bus\'s own signal %s' % sigmsg['member']
            if s_ign:
                add('sender-constraint-ignored', '%s reached connection(s) %s whose only matching rule(s) ask for another '
                    'sender: %s' % (what, sorted(s_ign), [r for j in sorted(s_ign) for r in held[j] if 'sender' in r]),
                    sorted(got_b), sorted(got_b - s_ign))
            if a_ign:
                add('arg0namespace-constraint-ignored', '%s (first argument %r) reached connection(s) %s whose only '
                    'matching rule(s) ask for another namespace: %s'
                    % (what, (sigmsg['args'] or [(None, None)])[0][-1], sorted(a_ign),
                       [r for j in sorted(a_ign) for r in held[j] if 'arg0namespace' in r]),
                    sorted(got_b), sorted(got_b - a_ign))
            if rest:
                add('bus-signal-to-non-holder', '%s reached connection(s) %s holding no rule it satisfies'
                    % (what, sorted(rest)), sorted(got_b), sorted(got_b - rest))
            if missed:
                add('bus-signal-missed-rule-holder', '%s reached %s but not connection(s) %s, which hold a rule it '
                    'satisfies' % (what, sorted(got_b), sorted(missed)), sorted(got_b), sorted(got_b | missed))
        if st.kind == 'disc':
            if fw:
                add('forward-on-disconnect', 'a disconnect produced forwarded messages', [show_payload(d) for _, d in fw])
            alive[i] = False
            dead_rules[i] = held[i]
            held[i] = []
            ref.disconnect(i)
            continue
        # ---- a message from connection i
        true = names[i]
        if malformed_by_generator(m):
            continue                   # '' as a bus name: whether / where / how it is delivered is not judged
        for j, d in fw:
            if d['sender'] != true:
                add('sender-not-true', 'a message from %s is delivered with sender %r (it wrote %r)'
                    % (true, d['sender'], m['sender']), d['sender'], true)
            elif d['senders'] != [true]:
                # every SENDER field of the delivered BYTES, not only the occurrence parseMessage keeps
                add('sender-not-true', 'a message from %s is delivered with the SENDER fields %r (it wrote %r): a receiver '
                    'that takes the first occurrence sees a forged sender' % (true, d['senders'], m['senders']),
                    d['senders'], [true])
            if d['repeated']:
                add('forwarded-repeats-header-field', 'the bus wrote header field(s) %s more than once' % d['repeated'],
                    d['repeated'], [])
            compare_forwarded(add, d, m)
            recv[j].append((true, d['dest'], d['serial']))
        dest = m['dest']
        mprime = dict(m)
        mprime['sender'] = true
        # the body as the harness BUILT it (not as txdbus unmarshalled it)
        mprime['args'], mprime['argtypes'] = m.get('cargs', m['args']), m.get('ctypes', m['argtypes'])

        def matches(r, **kw):
            return rule_matches_spec(r, mprime, rule_heads, names, **kw)

        def lax(r):
            # "holds a rule that made the router deliver this", whatever the unevaluated constraints say
            return matches(r, ignore_sender=True, ignore_arg0ns=True) is not False
        receivers = [j for j, _ in fw]
        if dest == BUS:
            replies = [(j, d) for j, d in bo if d['t'] in (2, 3) and d['rs'] == m['serial']]
            if is_addmatch_call(m):
                text = (m['cargs'][0][1] if m.get('cargs') and m['cargs'][0][0] == 's'
                        else ast.literal_eval(m['body'])[0])
                r = parse_rule(text)
                refused = any(j == i and d['t'] == 3 for j, d in replies)
                if r is not None and not refused:
                    held[i].append(r)
                elif r is None and not refused:
                    opaque[i] = True
            if fw:
                holders = [j for j in receivers if any(lax(r) for r in held[j] + dead_rules[j])]
                if len(holders) == len(receivers):
                    key = 'bus-call-routed-to-rule-holders'
                elif m['t'] == 1:
                    key = 'bus-call-forwarded'
                else:
                    key = 'bus-addressed-message-forwarded'
                add(key, 'a message (type %d) addressed to the bus itself was delivered to connection(s) %s%s'
                    % (m['t'], receivers, '; connection %s holds the NAME org.freedesktop.DBus' % heads[BUS]
                       if BUS in heads else ''), receivers, [])
            if m['t'] == 1:
                mine = [d for j, d in replies if j == i]
                other = [j for j, d in replies if j != i]
                if other:
                    add('bus-reply-misdelivered', 'the reply to a call of connection %d went to %s' % (i, other), other, [i])
                if not (m['flags'] & 1) and len(mine) != 1:
                    add('bus-call-not-answered-once', 'a call to the bus expecting a reply got %d replies' % len(mine),
                        len(mine), 1)
                if (m['flags'] & 1) and len(mine) > 1:
                    add('bus-call-not-answered-once', 'a no-reply call to the bus got %d replies' % len(mine), len(mine), '<= 1')
                if is_hello_call(m) and not helloed[i]:
                    helloed[i] = True
                    # the first Hello is how a connection learns the name the bus gave it
                    for d in mine:
                        body = ast.literal_eval(d['body']) if d['body'] else None
                        if d['t'] != 2 or body != [true]:
                            add('hello-reply-wrong-name', 'the reply to the first Hello of connection %d (%s) is %s %r'
                                % (i, true, 'a return with body' if d['t'] == 2 else 'an error', body), body, [true])
            sent_order.setdefault((true, dest), []).append(m['serial'])
            # ---- the reference name table follows the history: a RequestName / ReleaseName the bus did not refuse
            nc = name_call(m)
            if nc is not None and not any(j == i and d['t'] == 3 for j, d in replies):
                if nc[0] == 'request':
                    ref.request(i, nc[1], nc[2])
                else:
                    ref.release(i, nc[1])
        elif dest:
            # unicast: exactly once to the owner, to no other
            judge = True
            if dest[0] == ':':
                own = [j for j in range(nclients) if alive[j] and names[j] == dest]
                owner = own[0] if own else None
            else:
                # the owner according to the HISTORY (RefNames), not according to the bus's own table
                owner = heads.get(dest)
                if ref.ambiguous(dest):
                    judge = False          # the name-ownership rules leave two readings (a replaced owner)
            if judge:
                expected = [owner] if owner is not None else []
                if receivers != expected:
                    extra = [j for j in receivers if j != owner]
                    copies = receivers.count(owner) if owner is not None else 0
                    if extra and all(any(lax(r) for r in held[j] + dead_rules[j]) for j in extra):
                        add('unicast-also-routed-to-rule-holders',
                            'a unicast message for %s (connection %s) also reached connection(s) %s, which only '
                            'hold match rules' % (dest, owner, extra), receivers, expected)
                    elif extra:
                        add('unicast-delivered-to-wrong-connection', 'a unicast message for %s reached %s'
                            % (dest, extra), receivers, expected)
                    elif copies > 1:
                        key = ('unicast-also-routed-to-rule-holders'
                               if any(lax(r) for r in held[owner]) else 'unicast-delivered-twice')
                        add(key, 'a unicast message for %s reached its destination %d times (the destination holds a '
                            'matching rule)' % (dest, copies), receivers, expected)
                    elif copies == 0:
                        add('unicast-not-delivered', 'a unicast message for %s (connection %s) was not delivered'
                            % (dest, owner), receivers, expected)
            sent_order.setdefault((true, dest), []).append(m['serial'])
        elif m['t'] == 4:
            # broadcast: exactly the connections holding a rule it satisfies
            listeners = set(j for j in range(nclients) if alive[j] and not opaque[j])
            got = set(j for j in receivers if j in listeners)
            missed, s_ign, a_ign, rest = judge_receivers(lambda j: held[j], listeners, got, matches)
            if s_ign:
                rules = [r for j in sorted(s_ign) for r in held[j] if 'sender' in r]
                add('sender-constraint-ignored', 'a broadcast from %s reached connection(s) %s whose only matching '
                    'rule(s) ask for another sender: %s' % (true, sorted(s_ign), rules), sorted(got), sorted(got - s_ign))
            if a_ign:
                rules = [r for j in sorted(a_ign) for r in held[j] if 'arg0namespace' in r]
                add('arg0namespace-constraint-ignored', 'a broadcast from %s whose first argument is %s reached '
                    'connection(s) %s whose only matching rule(s) ask for another namespace: %s'
                    % (true, repr(mprime['args'][0][-1]) if mprime['args'] else 'absent', sorted(a_ign), rules),
                    sorted(got), sorted(got - a_ign))
            if rest:
                add('broadcast-to-non-holder', 'a broadcast reached connection(s) %s holding no matching rule'
                    % sorted(rest), sorted(got), sorted(got - rest))
            if missed:
                add('broadcast-missed-rule-holder', 'a broadcast did not reach connection(s) %s holding a matching rule'
                    % sorted(missed), sorted(got), sorted(got | missed))
    if net.unprocessed:
        add('message-not-processed', 'connection %(connection)d wrote %(messages_in_read)d complete message(s) in one '
            'read; the bus processed %(processed)d' % net.unprocessed, net.unprocessed['processed'],
            net.unprocessed['messages_in_read'])
    # ---- order per (sender, destination)
    for j in range(nclients):
        per = {}
        for snd, dest, serial in recv[j]:
            if dest:
                per.setdefault((snd, dest), []).append(serial)
        for key, serials in per.items():
            so = sent_order.get(key, [])
            it = iter(so)
            if not all(any(x == y for y in it) for x in serials):
                add('order-not-preserved', 'messages from %s to %s arrive at connection %d as %s, sent as %s'
                    % (key[0], key[1], j, serials, so), serials, so)
    return V


def net_name_after(net, st):
    """Unique name of the step's connection right after the step (read from the live object at step time)."""
    return st.named if st.named is not None else st.names_before[st.i]


# --------------------------------------------------------------------------- judging one history
SKIPPED = {'n': 0, 'judged': 0, 'no_model': 0, 'why': []}


def oracle_all(ops):
    """Violations of a (possibly multi-bus) history: the oracle on every bus of it."""
    out = []
    for net, _ in run_histories(ops):
        out.extend(oracle(net))
    return out


def judge(ctx, stream, ops, model=True, collect=None):
    try:
        runs = run_histories(ops)
        reach = next((net.harness_error for net, _ in runs if net.harness_error), None)
    except (HarnessReach, AttributeError, TypeError) as e:
        # raised by the harness's own code around the library (the library's exceptions are caught where it is
        # called and judged there): something the harness looks at has moved
        runs, reach = None, '%s: %s' % (type(e).__name__, e)
    if reach:
        SKIPPED['n'] += 1
        if reach not in SKIPPED['why'] and len(SKIPPED['why']) < 5:
            SKIPPED['why'].append(reach)
        ctx.stat('history-skipped: the harness could not reach an internal')
        return []
    vs = []
    for k, (net, lines) in enumerate(runs):
        vs.extend(judge_net(ctx, stream, ops, net, lines, collect, first=(k == 0)))
    if len(runs) > 1:
        ctx.stat('history-with-%d-buses' % len(runs))
    return vs


def judge_net(ctx, stream, ops, net, lines, collect, first=True):
    SKIPPED['judged'] += 1
    if net.no_model:
        SKIPPED['no_model'] += 1
        if net.no_model not in SKIPPED['why'] and len(SKIPPED['why']) < 5:
            SKIPPED['why'].append(net.no_model)
        collect = None         # the oracle still judges the history; the model cannot be fed without the observations
    ctx.impl_trace()
    impl = impl_lines(net)
    deliveries = sum(len(st.deliv) for st in net.steps)
    cross = any(1 for st in net.steps for j, d in st.deliv if j != st.i)
    if first:
        ctx.case(stream, sample={'ops': ops}, nontrivial=cross)
    ctx.stat('events', len(net.steps))
    ctx.stat('deliveries', deliveries)
    for st in net.steps:
        ctx.stat('event=' + st.kind)
        if st.kind == 'msg':
            s = st.sent
            d = s['dest']
            cls = ('bus' if d == BUS else 'none' if d is None else 'empty' if d == '' else
                   'unique' if d[0] == ':' else 'wellknown')
            ctx.stat('msg type=%d dest=%s' % (s['t'], cls))
            if s['sender'] is not None:
                ctx.stat('forged-sender')
            if st.lose:
                ctx.stat('first-message-not-hello')
            ctx.stat('receivers=%d' % len(st.deliv))
            if s['sig']:
                ctx.stat('body sig=' + s['sig'])
    ctx.stat('connections=%d' % len(net.clients))
    ids = [int(c['p'].uniqueName[3:]) for c in net.clients if c['p'].uniqueName]
    if ids:
        ctx.stat('max-unique-id>=10' if max(ids) >= 10 else 'max-unique-id<10')
    changed_names, left_holders = set(), False
    for st in net.steps:
        if any(e.startswith(('own ', 'unown ')) for e in st.effects):
            changed_names.update(e.split()[1] for e in st.effects if e.startswith(('own ', 'unown ')))
        if st.kind == 'disc' and any(o[0] == 'match' and o[1] == st.i for o in ops):
            left_holders = True
        if st.kind == 'msg':
            s = st.sent
            if s['dest'] in changed_names:
                ctx.stat('unicast-after-owner-change')
            if s['dest'] is None and s['t'] == 4 and left_holders:
                ctx.stat('broadcast-after-a-holder-left')
            if s['flags'] & ~3:
                ctx.stat('flags-beyond-0x3')
            if s['extra']:
                ctx.stat('unknown-header-field')
            if s['repeated']:
                ctx.stat('repeated-header-field')
            if s['serial'] >= 2 ** 31 or (s['rs'] or 0) >= 2 ** 31:
                ctx.stat('serial-or-reply-serial>=2**31')
            if st.op and st.op[0] == 'addmatch' and 'sender' in st.op[1]:
                ctx.stat('rule-with-sender-constraint')
            if st.op and st.op[0] == 'addmatch':
                for k in ('path_namespace', 'args', 'arg_paths', 'arg0namespace'):
                    if st.op[1].get(k):
                        ctx.stat('rule-with-' + k)
            if s['dest'] is None and s['t'] == 4 and s['args']:
                ctx.stat('broadcast-with-string-argument' if any(a[0] == 's' for a in s['args'])
                         else 'broadcast-with-other-arguments')
    if any(o[0] == 'split' for o in ops):
        ctx.stat('history-with-split-read')
    if net.model_off:
        ctx.stat('link-failed-history-continued')
    vs = oracle(net)
    ctx.stat('body-as-built-vs-as-unmarshalled: %s' % ('differs for some message' if net.view_differs else 'same for every message'))
    ctx.stat('owner-reference-vs-bus-table: %s' % ('differs at some event' if net.ref_differs else 'same at every event'))
    for key, what, obs, exp in vs:
        ctx.violation(key, what, inp={'ops': ops}, observed=obs, expected=exp)
    if collect is not None:
        collect.append((stream, ops, ['reset'] + lines, ['ok'] + impl, net.aborted or net.model_off))
    return vs


def compare(ctx, collected):
    """Feed every collected history to the driver in one call and diff."""
    allin = []
    for _, _, lines, _, _ in collected:
        allin.extend(lines)
    out = ctx.model(allin)
    if out is None:
        return
    pos = 0
    for stream, ops, lines, impl, aborted in collected:
        mo = out[pos:pos + len(lines)]
        pos += len(lines)
        if aborted:
            continue          # the implementation died with an exception: reported by the oracle
        if mo != impl:
            k = next((x for x in range(min(len(mo), len(impl))) if mo[x] != impl[x]), None)
            ctx.disagree(stream, {'ops': ops}, mo[k] if k is not None else mo, impl[k] if k is not None else impl,
                         detail={'line': lines[k] if k is not None else None, 'index': k})


# --------------------------------------------------------------------------- generators
def setup3(nclients=3):
    ops = []
    serial = 1
    for _ in range(nclients):
        ops.append(['connect'])
    for i in range(nclients):
        ops.append(['hello', i, serial])
        serial += 1
    return ops, serial


KINDS = ['call-unique-forged', 'return-wellknown', 'error-unknown', 'signal-broadcast', 'signal-unicast', 'call-bus']


def kind_msg(kind, i, n, serial):
    nxt, third = (i + 1) % n, (i + 2) % n
    if kind == 'call-unique-forged':
        return ['msg', i, dict(t=1, serial=serial, dest='@%d' % nxt, forged='@%d' % third, path='/x', iface='org.ex.I',
                               member='Foo', body='vbig')]
    if kind == 'return-wellknown':
        return ['msg', i, dict(t=2, serial=serial, dest='org.ex.A', rs=7, body='s')]
    if kind == 'error-unknown':
        return ['msg', i, dict(t=3, serial=serial, dest=':1.99', rs=7, err='org.ex.Error', body='s', flags=1)]
    if kind == 'signal-broadcast':
        return ['msg', i, dict(t=4, serial=serial, dest=None, path='/x', iface='org.ex.I', member='Foo', body='asv',
                               forged='org.ex.A')]
    if kind == 'signal-unicast':
        return ['msg', i, dict(t=4, serial=serial, dest='@%d' % third, path='/y', iface='org.ex.J', member='Bar',
                               body='none', flags=2)]
    if kind == 'call-bus':
        return ['bus', i, serial, 'GetNameOwner', 'org.ex.A', 0]
    raise ValueError(kind)


def interleavings(nclients, maxlen):
    """Every sequence of at most `maxlen` messages by `nclients` clients over the 6 message kinds: every
    assignment of messages to senders under every arrival order at the bus."""
    base, serial = setup3(nclients)
    base = base + [['req', 1 % nclients, serial, 'org.ex.A', 0, 0],
                   ['match', nclients - 1, serial + 1, {'type': 'signal', 'interface': 'org.ex.I'}, 0],
                   ['match', 0, serial + 2, {'member': 'Foo'}, 1]]
    serial += 3
    alphabet = [(i, k) for i in range(nclients) for k in KINDS]
    for ln in range(1, maxlen + 1):
        for seq in itertools.product(alphabet, repeat=ln):
            ops = list(base)
            for x, (i, k) in enumerate(seq):
                ops.append(kind_msg(k, i, nclients, serial + x))
            yield ops


def bus_name_holder_histories(maxlen=2):
    """Client 1 holds the NAME org.freedesktop.DBus (and org.freedesktop.DBus.Local), client 2 a rule; every sequence
    of at most `maxlen` messages of the four types addressed to 'org.freedesktop.DBus' (and one to the other special
    name, which IS an ordinary destination) by the three clients."""
    base, serial = setup3(3)
    base = base + [['req', 1, serial, BUS, 0, 0], ['req', 1, serial + 1, SPECIAL_NAMES[1], 0, 0],
                   ['match', 2, serial + 2, {'interface': 'org.ex.I'}, 0]]
    serial += 3

    def mk(i, t, k, ser):
        if t == 0:
            return ['msg', i, dict(t=4, serial=ser, dest=SPECIAL_NAMES[1], path='/x', iface='org.ex.I', member='Foo',
                                   body='s')]
        return ['msg', i, dict(t=t, serial=ser, dest=BUS, forged=BUS, path='/x', iface='org.ex.I', member='Foo',
                               rs=3, err='org.ex.Error', body='s', flags=(1 if t == 1 and k else 0))]
    alphabet = [(i, t) for i in range(3) for t in (0, 1, 2, 3, 4)]
    for ln in range(1, maxlen + 1):
        for seq in itertools.product(alphabet, repeat=ln):
            yield base + [mk(i, t, x, serial + x) for x, (i, t) in enumerate(seq)]


def body_histories():
    for key in BODY_KEYS:
        for t in (1, 2, 3, 4):
            for fl in (0, 1, 2, 3):
                ops, serial = setup3(2)
                ops.append(['msg', 0, dict(t=t, serial=serial, flags=fl, dest='@1', forged='@1', body=key, rs=3,
                                           err='org.ex.Error', path='/x', iface='org.ex.I', member='Foo')])
                ops.append(['msg', 1, dict(t=t, serial=serial + 1, flags=fl, dest='@0', body=key, rs=4, be=True,
                                           err='org.ex.Error', path='/x', iface='org.ex.I', member='Foo')])
                yield ops


def random_rule(rng, typed):
    r = {}
    if typed and rng.random() < 0.7:
        r['type'] = 'signal' if rng.random() < 0.8 else rng.choice(['method_call', 'method_return', 'error'])
    if rng.random() < 0.6:
        r['interface'] = rng.choice(IFACES)
    if rng.random() < 0.4:
        r['member'] = rng.choice(MEMBERS)
    if rng.random() < 0.25:
        r['path'] = rng.choice(PATHS)
    if rng.random() < 0.1:
        r['destination'] = rng.choice(WELL_KNOWN + [':1.1', ':1.2'])
    if rng.random() < 0.2:
        # evaluated against the TRUE sender; a well-known value means the current owner of that name
        r['sender'] = rng.choice(['@0', '@1', '@2', '@3'] + WELL_KNOWN + [BUS])
    r.update(random_complex_constraints(rng))
    if not r:
        r['interface'] = IFACES[0]
    return r


ARG_VALUES = ['hi', 'a', '', 'c', 'org.ex.A', 'org.ex', '/x/y', '/x', "it's", 'a,b=c', 'ss', 'x']
ARGPATH_VALUES = ['/x/', '/x/y', '/x/y/', '/', '/a/b', '/a/', '/x/y/z', 'hi', 'org.ex.A']
NAMESPACES = ['org.ex', 'org', 'org.ex.A', 'com', 'org.e', 'hi']


def random_complex_constraints(rng, p=0.35):
    """path_namespace / argN / argNpath / arg0namespace constraints (about a third of the random rules get some)."""
    r = {}
    if rng.random() >= p:
        return r
    if rng.random() < 0.45:
        r['path_namespace'] = rng.choice(['/', '/x', '/x/y', '/y', '/xy', '/x/y/z'])
    if rng.random() < 0.5:
        for _ in range(rng.choice([1, 1, 2])):
            r['arg%d' % rng.choice([0, 0, 0, 1, 1, 2, 12])] = rng.choice(ARG_VALUES)
    if rng.random() < 0.35:
        r['arg%dpath' % rng.choice([0, 0, 1])] = rng.choice(ARGPATH_VALUES)
    if rng.random() < 0.3:
        r['arg0namespace'] = rng.choice(NAMESPACES)
    if r and rng.random() < 0.3:
        r['_via'] = 'client'        # the text is written by the real txdbus client
    return r


def random_msg(rng, i, nconn, serial, typed):
    t = rng.choice([1, 1, 2, 3, 4, 4])
    dests = ['@%d' % j for j in range(nconn)] * 2 + WELL_KNOWN * 2 + ['org.ex.None', ':1.99', ':1.07', ':2.1']
    r = rng.random()
    if t == 4 and r < 0.5:
        dest = None
    elif r < 0.03:
        dest = ''
    elif r < 0.10:
        dest = BUS
    elif r < 0.13 and (t == 4 or not typed):
        dest = None
    elif r < 0.15:
        dest = SPECIAL_NAMES[1]
    else:
        dest = rng.choice(dests)
    forged = None
    if rng.random() < 0.5:
        forged = rng.choice(['@%d' % j for j in range(nconn)] + WELL_KNOWN + [BUS, ':1.99', ''])
    md = dict(t=t, serial=serial, flags=rng.choice([0, 0, 0, 1, 2, 3]), dest=dest, forged=forged,
              path=rng.choice(PATHS if rng.random() < 0.6 else NS_PATHS),
              iface=rng.choice(IFACES + ([None] if t == 1 else [])),
              member=rng.choice(MEMBERS), err='org.ex.Error', rs=rng.randrange(1, 50),
              body=rng.choice(BODY_KEYS if rng.random() < 0.55 else ARG_BODY_KEYS))
    if rng.random() < 0.2:
        md['be'] = True
    if rng.random() < 0.15:
        md['foreign'] = random_foreign(rng, t)
        md['serial'] = serial if rng.random() < 0.7 else 2 ** 31 + serial
        if rng.random() < 0.3:
            md['rs'] = rng.choice([2 ** 31, 2 ** 31 + 5, 2 ** 32 - 1])
    return ['msg', i, md]


def random_foreign(rng, t):
    f = {'flags': rng.choice([0, 1, 2, 3, 4, 5, 6, 7, 4, 4])}
    r = rng.random()
    if r < 0.25:
        f['opt'] = rng.sample([n for n in ('path', 'iface', 'member', 'err', 'rs') if n not in REQUIRED[t]],
                              rng.choice([1, 2]))
    elif r < 0.45:
        f['x'] = rng.choice([[[20, 'u', 9]], [[33, 's', 'zz']], [[20, 'u', 9], [200, 's', 'q']]])
    if rng.random() < 0.3:
        f['rev'] = True
    if rng.random() < 0.15:
        f[rng.choice(['pre', 'post'])] = [[7, 's', rng.choice(['@0', '@1', '@2', 'org.ex.A', ':1.99'])]]
    return f


def repeated_field_histories():
    """Hand-crafted headers that repeat a field (parseMessage keeps the last occurrence).  Such a message is not a valid
    DBus message; what is judged is what the statement says whatever the originator wrote: the delivered bytes carry
    exactly one SENDER field, the true name."""
    cases = [
        {'pre': [[7, 's', '@2']]},                    # forged, then the client's own name
        {'post': [[7, 's', '@2']]},                   # own name, then forged
        {'pre': [[7, 's', '@2'], [7, 's', 'org.ex.A']]},
        {'pre': [[7, 's', '@0']]},                    # own name twice
        {'pre': [[6, 's', '@2']]},                    # DESTINATION twice: first client 2, last client 1
        {'pre': [[3, 's', 'Other'], [7, 's', '@2']]},
        {'post': [[7, 's', '@0']], 'forged2': True},
    ]
    for t in (1, 2, 3, 4):
        for k, c in enumerate(cases):
            ops, serial = setup3(3)
            ops.append(['match', 2, serial, {'interface': 'org.ex.I'}, 0])
            f = {'flags': 0}
            f.update((x, c[x]) for x in ('pre', 'post') if x in c)
            md = dict(t=t, serial=serial + 1, dest='@1', forged='@2' if c.get('forged2') else '@0', path='/x',
                      iface='org.ex.I', member='Foo', err='org.ex.Error', rs=3, body='s', foreign=f)
            ops.append(['msg', 0, md])
            if t == 4:
                ops.append(['msg', 0, dict(md, dest=None, serial=serial + 2)])
            yield ops


def foreign_histories():
    """A foreign client (reference serializer, not txdbus's `_marshal`): every combination of flags byte x extra
    header fields x field order for the four types, unicast to client 1 (and, for signals, broadcast to the rule
    holder client 2); serials and reply serials at and above 2**31; both byte orders."""
    extras = [{}, {'opt': 'auto'}, {'x': [[20, 'u', 9]]}, {'x': [[33, 's', 'zz'], [20, 'u', 7]], 'opt': 'auto'}]
    optional = {1: ['err'], 2: ['path', 'member'], 3: ['iface', 'path'], 4: ['err', 'rs']}
    for t in (1, 2, 3, 4):
        for flags in (0, 3, 4, 7):
            for k, ex in enumerate(extras):
                for rev in (False, True):
                    ops, serial = setup3(3)
                    ops.append(['match', 2, serial, {'interface': 'org.ex.I'}, 0])
                    f = {'flags': flags, 'rev': rev}
                    if ex.get('opt'):
                        f['opt'] = optional[t]
                    if ex.get('x'):
                        f['x'] = ex['x']
                    big = (flags == 4 and k == 0)
                    md = dict(t=t, serial=(2 ** 32 - 1 - t) if big else serial + 1, dest='@1', forged='@2',
                              path='/x', iface='org.ex.I', member='Foo', err='org.ex.Error',
                              rs=(2 ** 31 + 5) if big else 3, body='s', be=(rev and k == 2), foreign=f)
                    ops.append(['msg', 0, md])
                    if t == 4:
                        md2 = dict(md, dest=None, serial=(2 ** 31) if big else serial + 2)
                        ops.append(['msg', 0, md2])
                    yield ops


# --- every placement of connects / disconnects / name operations among messages, small scenarios
LIFE_KINDS = ['call-other', 'signal-bcast', 'return-name', 'req', 'rel', 'disc']


def lifecycle_alphabet(nclients=2):
    return [(i, k) for i in range(nclients) for k in LIFE_KINDS] + [(None, 'connect-hello')]


def lifecycle_history(seq, nclients=2):
    """`nclients` clients said Hello, client 1 holds a rule on org.ex.I; then the operations of `seq`: a call to the
    other client, a broadcast signal, a method return to org.ex.A, RequestName / ReleaseName of org.ex.A, a
    disconnect, a new connection saying Hello (which then is the 'other' for nobody but a receiver by name)."""
    ops, serial = setup3(nclients)
    ops.append(['match', 1, serial, {'interface': 'org.ex.I'}, 0])
    serial += 1
    for i, k in seq:
        if k == 'connect-hello':
            n = sum(1 for o in ops if o[0] == 'connect')
            ops.append(['connect'])
            ops.append(['hello', n, serial])
        elif k == 'call-other':
            ops.append(['msg', i, dict(t=1, serial=serial, dest='@%d' % ((i + 1) % nclients), forged='org.ex.A', path='/x',
                                       iface='org.ex.I', member='Foo', body='s')])
        elif k == 'signal-bcast':
            ops.append(['msg', i, dict(t=4, serial=serial, dest=None, path='/x', iface='org.ex.I', member='Foo',
                                       body='none')])
        elif k == 'return-name':
            ops.append(['msg', i, dict(t=2, serial=serial, dest='org.ex.A', rs=7, body='s')])
        elif k == 'req':
            ops.append(['req', i, serial, 'org.ex.A', 0, 0])
        elif k == 'rel':
            ops.append(['rel', i, serial, 'org.ex.A', 0])
        elif k == 'disc':
            ops.append(['disc', i])
        serial += 1
    return ops


def lifecycle_histories(maxlen):
    alpha = lifecycle_alphabet()
    for ln in range(1, maxlen + 1):
        for seq in itertools.product(alpha, repeat=ln):
            yield lifecycle_history(seq)


# --- two-digit unique names
def many_connections_histories():
    """13 connections over time (never more than 4 alive), so that the names :1.1 and :1.10 ... :1.13 exist; then
    unicasts to :1.1 (gone), :1.10, :1.11, :1.12, :1.13, :1.1x-looking strings, and a broadcast."""
    for variant in range(6):
        ops, serial = [], 1
        keep = {0: [9, 10, 11, 12], 1: [0, 9, 10, 12], 2: [1, 10, 11, 12], 3: [9, 11, 12], 4: [0, 1, 11, 12],
                5: [9, 10, 11, 12]}[variant]
        for k in range(13):
            ops.append(['connect'])
            if variant == 5 and k % 2:
                # named by a first message that is not Hello (a signal)
                ops.append(['msg', k, dict(t=4, serial=serial, dest=None, path='/y', iface='org.ex.J', member='Bar',
                                           body='none')])
            else:
                ops.append(['hello', k, serial])
            serial += 1
            if k == 11:
                ops.append(['match', 11, serial, {'interface': 'org.ex.I'}, 0])
                serial += 1
            if k not in keep and k < 9:
                ops.append(['disc', k])
        for k in range(9, 13):
            if k not in keep:
                ops.append(['disc', k])
        src = keep[-1]
        for dest in ['@0', '@9', '@10', '@11', '@12', ':1.1', ':1.10', ':1.13', ':1.14', ':1.100', ':1.01']:
            ops.append(['msg', src, dict(t=rng_free_type(serial), serial=serial, dest=dest, forged='@9', path='/x',
                                         iface='org.ex.I', member='Foo', rs=3, err='org.ex.Error', body='s')])
            serial += 1
        ops.append(['msg', src, dict(t=4, serial=serial, dest=None, path='/x', iface='org.ex.I', member='Foo', body='s')])
        yield ops


def rng_free_type(serial):
    return (1, 2, 3, 4)[serial % 4]


# --- partial reads interleaved between clients
def split_read_histories():
    for cut in (1, 7, 15, 16, 17, 40, 10 ** 6):
        for kind_i, kind_j in (('call', 'signal'), ('signal', 'call'), ('call', 'buscall')):
            ops, serial = setup3(3)
            ops.append(['match', 2, serial, {'interface': 'org.ex.I'}, 0])

            def mk(kind, i, ser):
                if kind == 'call':
                    return ['msg', i, dict(t=1, serial=ser, dest='@2', path='/x', iface='org.ex.I', member='Foo', body='asv')]
                if kind == 'signal':
                    return ['msg', i, dict(t=4, serial=ser, dest=None, path='/x', iface='org.ex.I', member='Foo', body='s')]
                return ['bus', i, ser, 'GetNameOwner', 'org.ex.A', 0]
            ops.append(['split', 0, mk(kind_i, 0, serial + 1), cut, 1, mk(kind_j, 1, serial + 2)])
            ops.append(['msg', 0, dict(t=2, serial=serial + 3, dest='@1', rs=9, body='none')])
            yield ops


# --- the full rule language: every key, one rule per history, a fixed set of signals
FULL_RULES = [
    {'path_namespace': '/x'}, {'path_namespace': '/'}, {'path_namespace': '/x/y'}, {'path_namespace': '/xy'},
    {'path_namespace': '/x/y/z'},
    {'type': 'signal', 'path_namespace': '/x', 'interface': 'org.ex.I'}, {'path': '/x/y', 'path_namespace': '/x'},
    {'arg0': 'hi'}, {'arg0': ''}, {'arg1': ''}, {'arg0': 'org.ex.A'}, {'arg2': 'c'}, {'arg12': 'hi'}, {'arg0': '/x/y'},
    {'arg0': 'ss'}, {'arg0': "it's", 'arg1': 'a,b=c'}, {'arg1': 'hi'}, {'arg0': 'a', 'arg2': 'c', 'member': 'Foo'},
    {'arg0path': '/x/'}, {'arg0path': '/x/y'}, {'arg0path': '/x/y/'}, {'arg0path': '/x/y/z'}, {'arg0path': '/'},
    {'arg1path': '/x'}, {'arg1path': '/'}, {'arg0path': 'hi'}, {'arg0path': 'ss'}, {'arg0': '/x/y/', 'arg0path': '/x/'},
    {'arg0namespace': 'org.ex'}, {'arg0namespace': 'org'}, {'arg0namespace': 'org.ex.A'}, {'arg0namespace': 'com'},
    {'arg0namespace': 'org.e'}, {'arg0namespace': 'hi'}, {'arg0namespace': '/x'},
    {'type': 'signal', 'arg0namespace': 'org.ex', 'member': 'Foo'}, {'arg0': 'org.ex.A', 'arg0namespace': 'org.ex'},
    {'sender': '@0', 'arg0': 'hi'}, {'sender': '@1', 'path_namespace': '/x'}, {'sender': '@1', 'arg0namespace': 'com'},
    {'interface': '', 'arg0': 'hi'}, {'type': 'method_call', 'arg0': 'hi'}, {'destination': ':1.9', 'arg0': 'hi'},
]


def full_rule_histories():
    """Client 1 registers the rule with text written by the harness, client 2 the same constraints with the text the
    real txdbus client writes; client 0 then broadcasts one signal per body (path /x/y) and one per path (body
    'name'), client 1 two more."""
    for k, rule in enumerate(FULL_RULES):
        ops, serial = setup3(3)
        ops.append(['match', 1, serial, dict(rule), k % 2])
        ops.append(['match', 2, serial + 1, dict(rule, _via='client'), 0])
        serial += 2
        for body in ARG_BODY_KEYS:
            ops.append(['msg', 0, dict(t=4, serial=serial, dest=None, path='/x/y', iface='org.ex.I', member='Foo',
                                       body=body, be=(serial % 7 == 0))])
            serial += 1
        for path in NS_PATHS:
            ops.append(['msg', 0, dict(t=4, serial=serial, dest=None, path=path, iface='org.ex.J', member='Bar',
                                       body='name')])
            serial += 1
        ops.append(['msg', 1, dict(t=4, serial=serial, dest=None, path='/x', iface='org.ex.I', member='Foo', body='s')])
        ops.append(['msg', 1, dict(t=4, serial=serial + 1, dest=None, path='/x/y', iface='org.ex.I', member='Foo',
                                   body='nsx', forged='@0')])
        # the same body in a message that is not a signal and in a unicast signal: rules play no part
        ops.append(['msg', 0, dict(t=1, serial=serial + 2, dest='@1', path='/x/y', iface='org.ex.I', member='Foo',
                                   body='s')])
        ops.append(['msg', 0, dict(t=4, serial=serial + 3, dest='@2', path='/x/y', iface='org.ex.I', member='Foo',
                                   body='name')])
        yield ops


# rule texts no txdbus client writes: unquoted values, stray commas, empty / unknown / repeated keys, odd argument
# keys, quoting corner cases, texts that are no rule.  What the bus registers for them (or that it refuses them) is
# compared with the model's reading of the text on every line (`rule=`); the oracle judges the ones it can read.
FOREIGN_TEXTS = [
    "type=signal,interface=org.ex.I", "type=signal", "interface=org.ex.I,member=Foo", "path=/x/y,arg0=hi",
    ",type='signal'", "type='signal',", "type='signal',,member='Foo'", "=x", "type==x", "type='signal'=x",
    "eavesdrop=true", "eavesdrop='true',type='signal'", "type='signal',type='error'", "interface='org.ex.I',interface='org.ex.J'",
    "arg0='hi',arg0='a'", "arg01='hi'", "arg1='x',arg01=''", "arg64='hi'", "argfoo='hi'", "argpath='/x/'", "arg='hi'",
    "arg0path='/x/',arg0path='/'", "arg0='a''b'", "arg0=a\\'b", "arg0='a\\b'", "arg0=a\\b", "arg0='hi", "'",
    "type='signal', interface='org.ex.I'", " type='signal'", "arg0 ='hi'", "arg0= 'hi'", "member='Foo' ",
    "arg0namespace=org.ex", "path_namespace=/x,arg0namespace='org'", "interface=''", "arg0=''", "arg2=c,arg0=a",
    "sender=org.freedesktop.DBus,member=NameOwnerChanged", "destination=':1.9'", "nonsense", "a", "",
]


def foreign_text_histories():
    """Client 1 sends AddMatch with a foreign text (flags 0 / NO_REPLY alternating), client 2 the next text of the list;
    client 0 broadcasts signals with string arguments; a name request makes the bus broadcast as well."""
    n = len(FOREIGN_TEXTS)
    for k, text in enumerate(FOREIGN_TEXTS):
        ops, serial = setup3(3)
        ops.append(['match', 1, serial, text, k % 2])
        ops.append(['match', 2, serial + 1, FOREIGN_TEXTS[(k + 1) % n], 0])
        serial += 2
        for body, path in (('s', '/x/y'), ('sss', '/x'), ('none', '/y'), ('so', '/x/y'), ('name', '/'), ('quote', '/x')):
            ops.append(['msg', 0, dict(t=4, serial=serial, dest=None, path=path, iface='org.ex.I', member='Foo',
                                       body=body)])
            serial += 1
        ops.append(['req', 0, serial, 'org.ex.A', 0, 0])
        ops.append(['msg', 0, dict(t=3, serial=serial + 1, dest=None, rs=3, err='org.ex.Error', body='s')])
        yield ops


NOC = 'NameOwnerChanged'
NOC_RULES = [
    {'type': 'signal', 'sender': BUS, 'interface': BUS, 'member': NOC},       # what every txdbus client registers
    {'type': 'signal', 'sender': BUS, 'member': NOC, 'arg0': 'org.ex.A'},
    {'arg0': 'org.ex.B'}, {'arg0namespace': 'org.ex'}, {'arg0namespace': 'org.ex.A'}, {'arg0namespace': 'org.exx'},
    {'member': NOC, 'arg0namespace': 'com'}, {'arg1': ''}, {'arg2': ''}, {'arg1': '', 'arg0': 'org.ex.A'},
    {'sender': '@0', 'member': NOC}, {'path_namespace': '/org/freedesktop'}, {'path_namespace': '/org/free'},
    {'path': BUSPATH, 'arg0path': 'org.ex.A'}, {'arg3': 'x'}, {'destination': '@2', 'member': NOC},
    {'sender': '@0', 'arg0namespace': 'com'},
]


def name_signal_histories():
    """The bus's own NameOwnerChanged broadcasts (body: name, old owner, new owner) against rules with sender,
    argN, arg0namespace and path_namespace constraints: clients 2 and 3 hold one rule each; clients 0 and 1 acquire,
    take over, release names and leave."""
    n = len(NOC_RULES)
    for k in range(n):
        ops, serial = setup3(4)
        ops.append(['match', 2, serial, dict(NOC_RULES[k]), 0])
        ops.append(['match', 3, serial + 1, dict(NOC_RULES[(k + 1) % n], _via='client'), 1])
        serial += 2
        for op in (['req', 0, 0, 'org.ex.A', 1, 0], ['req', 1, 0, 'org.ex.B', 0, 0], ['req', 1, 0, 'org.ex.A', 2, 0],
                   ['req', 0, 0, 'org.ex.A', 0, 0], ['rel', 1, 0, 'org.ex.A', 0], ['req', 3, 0, 'org.ex.A.sub', 0, 0]):
            op[2] = serial
            serial += 1
            ops.append(op)
        ops.append(['disc', 2])
        ops.append(['req', 1, serial, 'org.ex.C', 0, 0])
        ops.append(['disc', 1])
        yield ops


# --- state that outlives an operation: flags of a waiting connection, several buses, a dropped link
def requeue_histories():
    """One name, three clients: A owns it; B asks (flags f1) and, still waiting, asks AGAIN (flags f2: the flags of the
    latest request count); A releases the name or leaves, so B inherits it; C asks with REPLACE_EXISTING (f3); then
    calls and signals addressed to the name from A / a bystander, and a release by whoever should own it now.  Who
    receives them is decided by the reference table of the oracle, never by the bus's own."""
    for f1 in (0, 1):
        for f2 in (0, 1, 2, 3, 4, 5):
            for leave in ('rel', 'disc'):
                for f3 in (2, 3, 6):
                    ops, serial = setup3(4)
                    seq = [['req', 0, 0, 'org.ex.A', 1, 0], ['req', 1, 0, 'org.ex.A', f1, 0],
                           ['req', 1, 0, 'org.ex.A', f2, 0],
                           ['rel', 0, 0, 'org.ex.A', 0] if leave == 'rel' else ['disc', 0],
                           ['req', 2, 0, 'org.ex.A', f3, 0],
                           ['msg', 3, dict(t=1, serial=0, dest='org.ex.A', path='/x', iface='org.ex.I', member='Foo',
                                           body='s')],
                           ['msg', 3, dict(t=4, serial=0, dest='org.ex.A', path='/x', iface='org.ex.I', member='Bar',
                                           body='none')],
                           ['rel', 1, 0, 'org.ex.A', 0],
                           ['msg', 3, dict(t=2, serial=0, dest='org.ex.A', rs=3, body='s')]]
                    for op in seq:
                        if op[0] == 'msg':
                            op[2]['serial'] = serial
                        elif op[0] != 'disc':
                            op[2] = serial
                        serial += 1
                        ops.append(op)
                    yield ops


def on(k, ops):
    return [['on', k, op] for op in ops]


def two_bus_histories(rng, nrandom):
    """Two `Bus()` objects of one process, interleaved event by event: what one bus knows (clients, names, rules, the
    next unique id) must play no part on the other.  Each bus is judged by the oracle on its own events; a write
    to a client of a bus that is processing nothing is `delivery-outside-any-event`."""
    X, Y = 0, 1
    sig = lambda ser: ['msg', 0, dict(t=4, serial=ser, dest=None, path='/x', iface='org.ex.I', member='Foo', body='s')]
    to = lambda i, dest, ser: ['msg', i, dict(t=1, serial=ser, dest=dest, path='/x', iface='org.ex.I', member='Foo',
                                              body='s')]
    ops = (on(X, [['connect'], ['connect']]) + on(Y, [['connect'], ['connect']])
           + [['on', X, ['hello', 0, 1]], ['on', Y, ['hello', 0, 1]], ['on', X, ['hello', 1, 2]], ['on', Y, ['hello', 1, 2]],
              ['on', X, ['match', 1, 3, {'interface': 'org.ex.I'}, 0]],
              ['on', Y, sig(3)],                          # nobody on Y holds a rule
              ['on', X, ['req', 0, 4, 'org.ex.A', 0, 0]],
              ['on', Y, to(1, 'org.ex.A', 4)],            # nobody owns org.ex.A on Y
              ['on', Y, to(0, '@1', 5)], ['on', X, to(0, '@1', 5)],
              ['on', X, ['disc', 1]],
              ['on', Y, to(0, '@1', 6)],                  # Y's :1.2 is still there
              ['on', X, to(0, ':1.2', 6)],                # X's is gone
              ['on', Y, ['match', 0, 7, {'member': 'Foo'}, 0]],
              ['on', X, sig(7)],                          # X's only holder left
              ['on', Y, sig(8)],
              ['on', Y, ['req', 1, 9, 'org.ex.A', 3, 0]], ['on', X, to(0, 'org.ex.A', 8)], ['on', Y, to(0, 'org.ex.A', 10)],
              ['on', X, ['connect']], ['on', Y, ['connect']], ['on', X, ['hello', 2, 1]], ['on', Y, ['hello', 2, 1]],
              ['on', X, to(0, '@2', 9)], ['on', Y, to(1, '@2', 11)], ['on', Y, ['disc', 0]], ['on', X, sig(10)]])
    yield ops
    alpha = lifecycle_alphabet()
    for _ in range(nrandom):
        a = lifecycle_history([rng.choice(alpha) for _ in range(rng.choice([3, 4, 6]))])
        b = (lifecycle_history([rng.choice(alpha) for _ in range(rng.choice([3, 4, 6]))]) if rng.random() < 0.5
             else random_full_history(rng))
        a, b = on(X, a), on(Y, b)
        out = []
        while a or b:
            src = a if (a and (not b or rng.random() < 0.5)) else b
            out.append(src.pop(0))
        yield out


def dropped_link_histories():
    """A client sends a frame that is not a DBus message: the exception out of dataReceived costs THAT client its
    connection.  Everybody else goes on: the name it owned passes to the waiter, its rule is gone, its unique name
    leads nowhere and is not given out again, a newcomer gets a fresh one."""
    for victim in (0, 1, 2):
        for second in (False, True):
            ops, serial = setup3(3)
            ops += [['req', 1, serial, 'org.ex.A', 0, 0], ['req', 2, serial + 1, 'org.ex.A', 0, 0],
                    ['req', 0, serial + 2, 'org.ex.B', 1, 0],
                    ['match', 1, serial + 3, {'interface': 'org.ex.I'}, 0], ['match', 0, serial + 4, {'member': 'Foo'}, 0],
                    ['garbage', victim, serial + 5]]
            serial += 6
            other = [x for x in (0, 1, 2) if x != victim]
            ops += [['msg', other[0], dict(t=4, serial=serial, dest=None, path='/x', iface='org.ex.I', member='Foo',
                                           body='s')],
                    ['msg', other[0], dict(t=1, serial=serial + 1, dest='@%d' % victim, path='/x', member='Foo', body='s')],
                    ['msg', other[1], dict(t=1, serial=serial + 2, dest='org.ex.A', path='/x', member='Foo', body='s')],
                    ['msg', other[1], dict(t=2, serial=serial + 3, dest='org.ex.B', rs=3, body='none')],
                    ['connect'], ['hello', 3, 1],
                    ['msg', 3, dict(t=1, serial=2, dest='@%d' % other[0], path='/x', member='Foo', body='s')],
                    ['msg', other[0], dict(t=1, serial=serial + 4, dest='@3', path='/x', member='Foo', body='s')],
                    ['req', 3, 3, 'org.ex.A', 2, 0],
                    ['msg', other[1], dict(t=4, serial=serial + 5, dest='org.ex.A', path='/y', iface='org.ex.J',
                                           member='Bar', body='none')]]
            if second:
                ops += [['garbage', other[0], serial + 6],
                        ['msg', other[1], dict(t=4, serial=serial + 7, dest=None, path='/x', iface='org.ex.I',
                                               member='Foo', body='s')],
                        ['msg', 3, dict(t=1, serial=4, dest='org.ex.B', path='/x', member='Foo', body='s')]]
            yield ops


def random_full_history(rng):
    """3-4 clients; several rules with path_namespace / argN / argNpath / arg0namespace constraints (always some);
    broadcasts whose paths and bodies are drawn from the pools those constraints talk about; name requests (the bus's
    own broadcasts); a disconnect of a holder now and then."""
    n = rng.choice([3, 3, 4])
    ops, serial = setup3(n)
    for _ in range(rng.choice([2, 3, 4, 5])):
        r = {}
        while not r:
            r = random_complex_constraints(rng, p=1.0)
        if rng.random() < 0.4:
            r.update(rng.choice([{'type': 'signal'}, {'interface': rng.choice(IFACES)}, {'member': rng.choice(MEMBERS)},
                                 {'sender': '@%d' % rng.randrange(n)}, {'sender': BUS}, {'path': rng.choice(NS_PATHS)}]))
        ops.append(['match', rng.randrange(n), serial, r, rng.choice([0, 0, 1])])
        serial += 1
    for _ in range(rng.choice([6, 10, 16])):
        x = rng.random()
        i = rng.randrange(n)
        if x < 0.12:
            ops.append(['req', i, serial, rng.choice(['org.ex.A', 'org.ex.B', 'org.ex.A.sub', 'com.ex']),
                        rng.randrange(4), 0])
        elif x < 0.16:
            ops.append(['disc', i])
        else:
            ops.append(['msg', i, dict(t=4 if x < 0.9 else rng.choice([1, 2, 3]), serial=serial, dest=None,
                                       path=rng.choice(NS_PATHS), iface=rng.choice(IFACES), member=rng.choice(MEMBERS),
                                       rs=3, err='org.ex.Error', body=rng.choice(ARG_BODY_KEYS),
                                       be=rng.random() < 0.15, flags=rng.choice([0, 0, 1]))])
        serial += 1
    return ops


def random_history(rng, length):
    typed = rng.random() < 0.7
    ops = []
    serial = 1
    nconn = 0
    alive = []
    start = rng.choice([2, 2, 3, 3, 4])
    for _ in range(start):
        ops.append(['connect'])
        alive.append(nconn)
        nconn += 1
    for i in list(alive):
        if rng.random() < 0.85:
            ops.append(['hello', i, serial])
            serial += 1
    while len(ops) < length:
        r = rng.random()
        if not alive or (r < 0.06 and nconn < 6 and len(alive) < 4):
            ops.append(['connect'])
            alive.append(nconn)
            nconn += 1
            if rng.random() < 0.7:
                ops.append(['hello', nconn - 1, serial])
                serial += 1
            continue
        i = rng.choice(alive)
        if r < 0.12:
            ops.append(['disc', i])
            alive.remove(i)
        elif r < 0.24:
            ops.append(['req', i, serial, rng.choice(WELL_KNOWN * 3 + SPECIAL_NAMES), rng.randrange(8),
                        rng.choice([0, 0, 0, 1]),
                        rng.choice([None, None, '@%d' % rng.randrange(nconn)])])
        elif r < 0.30:
            ops.append(['rel', i, serial, rng.choice(WELL_KNOWN * 3 + SPECIAL_NAMES), rng.choice([0, 0, 1])])
        elif r < 0.42:
            ops.append(['match', i, serial, random_rule(rng, typed), rng.choice([0, 0, 1])])
        elif r < 0.50:
            kind = rng.choice(['GetId', 'GetNameOwner', 'ListQueuedOwners', 'RemoveMatch', 'NoSuchMethod', 'badpath',
                               'badsig', 'noiface', 'Ping', 'Introspect', 'Hello', 'ListActivatableNames'])
            ops.append(['bus', i, serial, kind, rng.choice(WELL_KNOWN + [':1.1', "interface='org.ex.I'"]),
                        rng.choice([0, 0, 1, 3])])
        elif r < 0.55:
            k = rng.randrange(2, 4)
            sub = []
            for x in range(k):
                sub.append(random_msg(rng, i, nconn, serial + x, typed))
            serial += k - 1
            ops.append(['burst', i, sub])
        elif r < 0.57:
            ops.append(['match', i, serial, 'nonsense', 0])
        elif r < 0.60 and len(alive) > 1:
            j = rng.choice([x for x in alive if x != i])
            ops.append(['split', i, random_msg(rng, i, nconn, serial, typed), rng.choice([1, 8, 16, 24, 50]),
                        j, random_msg(rng, j, nconn, serial + 1, typed)])
            serial += 1
        else:
            ops.append(random_msg(rng, i, nconn, serial, typed))
        serial += 1
    return ops


EXEMPLARS = {
    # seeded change C14d: a client holding the NAME org.freedesktop.DBus must not receive what others address to the bus
    'bus-name-held-by-a-client': [['connect'], ['connect'], ['hello', 0, 1], ['hello', 1, 2], ['req', 1, 3, BUS, 0, 0],
                                  ['msg', 0, dict(t=4, serial=4, dest=BUS, path='/x', iface='org.ex.I', member='Foo',
                                                  body='s')],
                                  ['msg', 0, dict(t=2, serial=5, dest=BUS, rs=3, body='none')],
                                  ['msg', 0, dict(t=3, serial=6, dest=BUS, rs=3, err='org.ex.Error', body='none')],
                                  ['msg', 0, dict(t=1, serial=7, dest=BUS, path='/x', member='Foo', body='none')]],
    # F20 (256784c): any message received by the bus raised TypeError
    'bus-parse-typeerror': [['connect'], ['hello', 0, 1]],
    # F33 (6ba9f66): UInt64(2**40) inside a variant died in the bus's re-encoding
    'variant-uint64-through-bus': [['connect'], ['connect'], ['hello', 0, 1], ['hello', 1, 2],
                                   ['msg', 0, dict(t=1, serial=3, dest='@1', body='vbig', path='/x', member='Foo')]],
    # F4 (7466ae7): flags survive the bus
    'flags-through-bus': [['connect'], ['connect'], ['hello', 0, 1], ['hello', 1, 2],
                          ['msg', 0, dict(t=1, serial=3, flags=3, dest='@1', body='s', path='/x', member='Foo')]],
}


# --------------------------------------------------------------------------- descriptors through the bus (oracle only)
FD_WHAT = ('the built-in bus forwards a descriptor-carrying message without its descriptors and without the unix_fds '
           'header field; the sender\'s descriptor queue is not consumed')

# name -> list of reads by client 0; a read is a list of (stand-in descriptor, destination) messages that arrive
# together, their descriptors having been received (fileDescriptorReceived) just before the bytes
FD_CASES = {
    'one-message': [[(1007, '@1')]],
    'two-messages-two-reads': [[(1007, '@1')], [(1008, '@1')]],
    'two-messages-one-read': [[(1007, '@1'), (1008, '@1')]],
    'to-well-known-name-then-unique': [[(1007, 'org.ex.A')], [(1008, '@1')]],
    'second-message-to-third-client': [[(1007, '@1')], [(1008, '@2')]],
}


def run_fd_case(name):
    """Client 0 receives a (stand-in) descriptor and sends a method call with signature 'h' that refers to it.
    Returns the list of per-message observations; `ok` is what the statement asks for."""
    net = Net()
    B = bodies()
    serial = 1
    for _ in range(3):
        net.connect()
    for i in range(3):
        net.feed(i, [build(net.message, B, dict(t=1, serial=serial, path=BUSPATH, iface=BUS, member='Hello', dest=BUS))])
        serial += 1
    net.feed(1, [build(net.message, B, dict(t=1, serial=serial, path=BUSPATH, iface=BUS, member='RequestName', dest=BUS,
                                            sigbody=('su', ['org.ex.A', 0])))])
    serial += 1
    names = [c['p'].uniqueName for c in net.clients]
    owner = {'org.ex.A': 1}
    obs = []
    p0 = net.clients[0]['p']
    for read in FD_CASES[name]:
        raws, expect = [], []
        for fd, dest in read:
            d = names[int(dest[1:])] if dest.startswith('@') else dest
            m = net.message.MethodCallMessage('/x', 'TakeThis', interface='org.ex.I', destination=d,
                                              signature='h', body=[fd], oobFDs=[])
            serial += 1
            raws.append(m.rawMessage)
            expect.append((fd, int(dest[1:]) if dest.startswith('@') else owner[dest], m.serial))
            p0.fileDescriptorReceived(fd)
        w0, f0 = len(net.wlog), len(net.fdlog)
        try:
            p0.dataReceived(b''.join(raws))
        except Exception as e:
            obs.append({'ok': False, 'exception': '%s: %s' % (type(e).__name__, str(e)[:120])})
            break
        for fd, j, ser in expect:
            got = [raw for k, raw in net.wlog[w0:] if k == j]
            fwd = [net.message.parseMessage(raw, [fd]) for raw in got]
            fwd = [x for x in fwd if x.serial == ser and x.sender == names[0]]
            declared = [getattr(x, 'unix_fds', None) for x in fwd]
            handed = [f for k, f, _ in net.fdlog[f0:] if k == j]
            o = {'descriptor': fd, 'destination': j, 'forwarded_copies': len(fwd), 'unix_fds_declared': declared,
                 'descriptors_given_to_destination': handed}
            o['ok'] = (len(fwd) == 1 and declared == [1] and fd in handed)
            obs.append(o)
        left = len(p0._receivedFDs)
        obs.append({'sender_queue_left': left, 'ok': left == 0})
    return obs


def judge_fd(ctx, name):
    try:
        obs = run_fd_case(name)
    except (HarnessReach, AttributeError, TypeError) as e:
        ctx.note('advisory: descriptor case %s skipped, the harness could not reach an internal (%s: %s)'
                 % (name, type(e).__name__, e))
        return
    ctx.case('unicast-with-descriptor', sample={'fdcase': name}, nontrivial=True)
    ctx.impl_trace()
    ctx.stat('descriptor-case')
    if not all(o['ok'] for o in obs):
        ctx.violation('bus-drops-descriptors', FD_WHAT, inp={'fdcase': name, 'reads': FD_CASES[name]},
                      observed=obs, expected='every message arrives once, declaring unix_fds=1, its descriptor handed to '
                      'the destination\'s transport; nothing left in the sender\'s queue')


# --------------------------------------------------------------------------- shrinking
def shrink(ops, key, budget=150):
    """Drop operations (never a connect: indices would shift) while the same violation key remains."""
    def has(o):
        try:
            return any(v[0] == key for v in oracle_all(o))
        except Exception:
            return False
    cur = list(ops)
    changed = True
    while changed and budget > 0:
        changed = False
        for k in range(len(cur) - 1, -1, -1):
            if cur[k][0] == 'connect' or (cur[k][0] == 'on' and cur[k][2][0] == 'connect'):
                continue
            cand = cur[:k] + cur[k + 1:]
            budget -= 1
            if has(cand):
                cur = cand
                changed = True
            if budget <= 0:
                break
    return cur


# --------------------------------------------------------------------------- entry points
def run(ctx):
    collected = []
    seen_keys = {}
    SKIPPED.update(n=0, judged=0, no_model=0, why=[])
    del REACH_NOTES[:]

    def go(stream, ops):
        vs = judge(ctx, stream, ops, collect=collected)
        for v in vs:
            seen_keys.setdefault(v[0], ops)

    # corpus and regression exemplars first
    for name, case in ctx.corpus():
        go('corpus-and-exemplars', case['ops'])
    for name, ops in sorted(EXEMPLARS.items()):
        go('corpus-and-exemplars', ops)

    # every arrival order of <= 3 messages among <= 3 clients
    plans = [(3, 3)] if (ctx.tier == 'quick' and not ctx.widen) else [(2, 3), (3, 3)]
    for n, ln in plans:
        for ops in interleavings(n, ln):
            go('interleavings-exhaustive', ops)
    for ops in bus_name_holder_histories():
        go('interleavings-exhaustive', ops)
    # connects, disconnects and name operations at every position (2 clients + late joiners, 13 operation kinds):
    # all sequences of length <= 2 always; length 3 completely in the thorough tier, sampled in the quick tier
    if ctx.tier == 'quick' and not ctx.widen:
        for ops in lifecycle_histories(2):
            go('interleavings-exhaustive', ops)
        alpha = lifecycle_alphabet()
        for _ in range(260):
            go('interleavings-exhaustive', lifecycle_history([ctx.rng.choice(alpha) for _ in range(3)]))
    else:
        for ops in lifecycle_histories(3):
            go('interleavings-exhaustive', ops)
    for ops in many_connections_histories():
        go('interleavings-exhaustive', ops)
    for ops in requeue_histories():
        go('interleavings-exhaustive', ops)
    for ops in split_read_histories():
        go('interleavings-exhaustive', ops)
    ctx.exhaustive = True

    for ops in foreign_histories():
        go('foreign-messages', ops)
    for ops in repeated_field_histories():
        go('foreign-messages', ops)
    ctx.note('interleavings enumerated: %s (clients, max messages) over %d message kinds' % (plans, len(KINDS)))

    for ops in body_histories():
        go('bodies-reencode', ops)

    # every key of the rule language; rule texts written by the harness and by the real txdbus client
    for ops in full_rule_histories():
        go('full-rule-language', ops)
    for ops in name_signal_histories():
        go('full-rule-language', ops)
    for ops in foreign_text_histories():
        go('full-rule-language', ops)
    nfull = ctx.scale(quick=60, thorough=1500)
    for k in range(nfull):
        go('full-rule-language', random_full_history(ctx.rng))
    if CLIENT_TEXTS['fallback']:
        ctx.note('advisory: %d rule texts could not be obtained from the real txdbus client and were written by the '
                 'harness' % CLIENT_TEXTS['fallback'])
    ctx.note('rule texts written by the real DBusClientConnection.addMatch: %d' % CLIENT_TEXTS['n'])

    # several buses in one process, interleaved; a client whose link fails while the others go on
    for ops in two_bus_histories(ctx.rng, ctx.scale(quick=40, thorough=600)):
        go('buses-and-dropped-links', ops)
    for ops in dropped_link_histories():
        go('buses-and-dropped-links', ops)

    n = ctx.scale(quick=300, thorough=9000)
    for k in range(n):
        ln = ctx.rng.choice([8, 12, 20, 30, 45, 60])
        go('histories-random', random_history(ctx.rng, ln))
        if ctx.time_left() < 20:
            ctx.note('random histories cut short by the time budget after %d' % k)
            break

    compare(ctx, collected)
    for note in REACH_NOTES[:3]:
        ctx.note('advisory: ' + note)
    if SKIPPED['n'] or SKIPPED['no_model']:
        ctx.note('advisory: %d histories skipped and %d judged by the oracle only because the harness could not reach an '
                 'internal of this tree (not a finding): %s' % (SKIPPED['n'], SKIPPED['no_model'], '; '.join(SKIPPED['why'])))
    if SKIPPED['judged'] == 0:
        raise RuntimeError('no history could be run in this tree: %s' % '; '.join(SKIPPED['why']))

    # descriptor-carrying messages: judged by the oracle only (known finding bus-drops-descriptors; not modelled)
    for name in sorted(FD_CASES):
        judge_fd(ctx, name)

    # minimise the exemplar of every violated key
    for v in ctx.violations:
        if 'ops' not in v['input']:
            continue
        small = shrink(v['input']['ops'], v['key'])
        if len(small) < len(v['input']['ops']):
            for key, what, obs, exp in oracle_all(small):
                if key == v['key']:
                    v.update(input={'ops': small}, what=what, observed=obs, expected=exp)
                    break


def replay(ctx, data):
    inp = data.get('input') or {}
    if inp.get('fdcase') in FD_CASES:
        judge_fd(ctx, inp['fdcase'])
        return
    ops = inp.get('ops')
    if ops is None:
        return
    collected = []
    judge(ctx, 'corpus-and-exemplars', ops, collect=collected)
    compare(ctx, collected)
