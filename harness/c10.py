"""C10 - Every call to an exported object gets exactly one correctly addressed reply.
Correspondence + oracle harness.

Real `DBusObjectHandler` on a recording fake connection.  A *scenario* is a JSON-able spec:
interface declarations, a class hierarchy built with `type()` (both binding styles, overrides,
a plain mixin), objects exported at paths, and a history of operations: `call` (a real
`MethodCallMessage` marshalled to bytes, parsed back with `message.parseMessage` - so the flags
byte is in the loop - and handed to `handleMethodCallMessage`) and `resolve k` (the Deferred
returned by the method of operation k fires).  Two judgements per operation:

  S3  the Lean model (`drv_c10`, TxdbusModel.Obj.Dispatch) prints the same events (invocations and
      messages sent, in order) as the implementation;
  S4  an implementation-only monitor written from the property statement (`Monitor`).
"""
import ast
import copy
import inspect
import json

from harness import c10_locate as L
from harness import c10_props as PR

LOC_NOTES = []      # sentences of the locators (a private name was gone, a fallback through public behaviour was used)

STREAMS = ['dispatch-random', 'dispatch-lookup-grid', 'dispatch-deferred', 'dispatch-builtin',
           'dispatch-unexport-deferred', 'dispatch-properties', 'dispatch-shared-base']
THEOREMS = [
    'at_most_one_reply', 'exactly_one_if_expected', 'none_if_no_reply_and_dispatched',
    'reply_addressing', 'runs_iff', 'lookup_failure_reply', 'unbound_reply', 'asks_for_caller_iff',
    'source_send_error_total', 'result_encoding', 'error_reply_name', 'unencodable_value_one_error',
    'prefix_model_violates_exactly_one', 'unbound_witness', 'unexport_witness', 'table_shape',
    'deferred_after_unexport_one_reply', 'deferred_after_unexport_witness', 'builtin_reply', 'builtin_witness',
    'properties_call_reply_is_c17_partial', 'properties_reply_observed_as_c17', 'callStep_moves_c17_state',
    'get_through_dispatcher_returns_last_write', 'set_then_get_through_dispatcher', 'properties_get_error_exact', 'properties_set_getall_error_exact', 'properties_lookup_errors', 'library_serves_plain_objects', 'builtin_table_shape',
    'properties_witness', 'empty_interface_name_binding', 'empty_name_witness', 'property_key_order_witness',
]
TRUSTED_BASE = [
    'Python attribute lookup along __mro__, dict order of class __dict__, inspect.getfullargspec, '
    'Twisted Deferred/maybeDeferred (incl. coroutines)/Failure.getErrorMessage (mirrored in Obj/Dispatch.lean, '
    'validated by the streams)',
    'MethodReturnMessage(...) raising or not for a given body/signature (wire codec, C01/C02), building the '
    'GetManagedObjects reply raising or not (C16/C17) and marshal.validateErrorName (C18) enter the model as '
    'parameters; the harness evaluates them on the real code',
    'every other message the dispatcher builds marshals: ErrorMessage for a valid error name, a valid sender and a '
    'text without NUL - that covers send_error after its escape AND the four _send_err texts (UnknownObject / '
    'UnknownMethod / InvalidArgs with path, member, signature, interface of the parsed call; the C10-02 text '
    '`str(e)`, which is NOT escaped) - and the Ping / Introspect replies (validated by the streams, not in Lean)',
]
ASSUMPTIONS = [
    'the sender field of an incoming call is a valid bus name or absent (the bus fills it in)',
    'a function found in a class __dict__ has __name__ equal to its attribute name (no aliasing); dbus_<m> '
    'attributes are functions (a non-function or staticmethod dbus_<m> is outside the model)',
    'exception texts and error names are sequences of Unicode scalar values in the correspondence streams '
    '(lone surrogates are exercised against the oracle only); str(e) does not raise',
    'a Deferred is returned by one call only and fired by user code at most once effectively (Twisted raises '
    'AlreadyCalledError on a second firing; the same Deferred returned by two calls chains their callbacks)',
    'user code does not re-enter the dispatcher or change the class attributes after the first dispatch',
    'the no-reply flag of a parsed call is what the caller marshalled: parseMessage restoring it is C03\'s '
    '(known_findings C03 parse-ignores-flags); here every call travels as bytes through parseMessage with all '
    'eight values of the low flag bits, and the monitor judges against the flag the caller set',
    'org.freedesktop.DBus.Properties calls are C17\'s, the XML / managed-object bodies are C16\'s',
]
RULE = ('scenarios (declarations x exported objects x history of calls and Deferred resolutions) generated from '
        'VERIF_SEED; one case = one operation of a history; distinct = distinct canonical JSON of '
        '(declarations digest, operation); non-trivial = the operation reached object lookup or beyond')

_M = object()      # "argument not passed"

IFACE_NAMES = ['org.a', 'org.b', 'org.a.x', 'com.c']
MEMBERS = ['one', 'two', 'three', 'Ping', 'x1']
SIGS = ['', 's', 'i', 'ss', 'a{sv}', '(ii)', 'as', 'si']
PATHS = ['/', '/a', '/a/b', '/ab', '/c/d/e', '/a/b/c']
OTHER_PATHS = ['/c', '/c/d', '/zz', '/a/bb', '/a/b/cc', '/b']
PEER = ('org.freedesktop.DBus.Peer', 'Ping')
INTRO = ('org.freedesktop.DBus.Introspectable', 'Introspect')
MANAGED = ('org.freedesktop.DBus.ObjectManager', 'GetManagedObjects')
BUILTINS = [PEER, INTRO, MANAGED]


# ----------------------------------------------------------------------------- hex helpers
def str_hex(s):
    if s == '':
        return '-'
    return ''.join('%06x' % ord(c) for c in s)


def opt_hex(s):
    return '~' if s is None else str_hex(s)


def has_surrogate(s):
    return any(0xD800 <= ord(c) <= 0xDFFF for c in s)


# ----------------------------------------------------------------------------- value generators
def gen_value(rng, sig):
    """A list of arguments matching signature `sig` (one of SIGS)."""
    def s():
        return rng.choice(['', 'x', 'hello', 'café', '✓ ok', 'a b'])

    def i():
        return rng.choice([0, 1, -1, 7, 2 ** 31 - 1, -2 ** 31])
    if sig == '':
        return []
    if sig == 's':
        return [s()]
    if sig == 'i':
        return [i()]
    if sig == 'ss':
        return [s(), s()]
    if sig == 'si':
        return [s(), i()]
    if sig == 'as':
        return [[s() for _ in range(rng.randrange(0, 3))]]
    if sig == '(ii)':
        return [[i(), i()]]
    if sig == 'a{sv}':
        return [{k: rng.choice([s(), i()]) for k in rng.sample(['k', 'm', 'z'], rng.randrange(0, 3))}]
    raise ValueError(sig)


def gen_return(rng, sig_out):
    """A return value for declared signature `sig_out`: mostly right, sometimes not encodable."""
    args = gen_value(rng, sig_out)
    r = rng.random()
    if r < 0.62:
        if len(args) == 0:
            return rng.choice([None, None, 'ignored', [], ()])
        if len(args) == 1:
            v = args[0]
            if sig_out == '(ii)' and rng.random() < 0.5:
                v = tuple(v)
            return v
        return rng.choice([list(args), tuple(args)])
    wrong = [None, 5, 'str', 2 ** 40, ['a'], ('a',), ['a', 'b'], ('a', 'b', 'c'), 'a\x00b', {'k': None},
             [], (), [1, 2], 'single', {1: 2}, [['a']], '\udc80x', 1.5, b'bytes', object]
    return rng.choice(wrong)


EXC_CLASSES = ['Exception', 'ValueError', 'KeyError', 'MyError', '_Priv', 'Fehlerü', 'E9', 'X.Y']
EXC_NAMES = [None, None, None, 'org.ex.Failed', 'org.ex.Failed', 'com.a.b.C', 'bad name', '', 'nodots', 'org..x',
             '9org.x', 'org.x\x00y', 'org.9x', 'a.b.', 'org.ex-dash', 'x' * 250 + '.toolong']
EXC_TEXTS = ['', 'boom', 'went wrong: 42', 'café ✓', 'a\x00b', '\x00', 'line1\nline2', '%s %d', 'x' * 300,
             'tail\x00']
HOSTILE_TEXTS = ['\udc80', 'a\ud800b', '\x00\udfff', 'ok\udc80\x00', 'plain']


def gen_exc(rng, hostile=False):
    cls = rng.choice(EXC_CLASSES)
    name = rng.choice(EXC_NAMES + ([5, 2.5, 'org.\udc80x'] if hostile else []))
    text = rng.choice(HOSTILE_TEXTS if hostile else EXC_TEXTS)
    return {'cls': cls, 'name': name, 'text': text,
            'name_attr': name is not None or rng.random() < 0.2,
            'name_level': 'class' if rng.random() < 0.5 else 'instance'}


def gen_outcome(rng, sig_out, deferred_ok=True, hostile=False):
    r = rng.random()
    if hostile:
        return {'kind': 'raise', 'exc': gen_exc(rng, True)}
    if r < 0.45:
        return {'kind': 'value', 'value': repr(gen_return(rng, sig_out))}
    if r < 0.70:
        return {'kind': 'raise', 'exc': gen_exc(rng)}
    if r < 0.78:
        return {'kind': 'fired', 'value': repr(gen_return(rng, sig_out))}
    if r < 0.84:
        return {'kind': 'failed', 'exc': gen_exc(rng)}
    if r < 0.87:
        return {'kind': 'coro-value', 'value': repr(gen_return(rng, sig_out))}      # `async def` method
    if r < 0.89:
        return {'kind': 'coro-raise', 'exc': gen_exc(rng)}
    if deferred_ok:
        return {'kind': 'deferred'}
    return {'kind': 'value', 'value': repr(gen_return(rng, sig_out))}


def gen_resolution(rng, sig_out):
    if rng.random() < 0.6:
        return {'kind': 'value', 'value': repr(gen_return(rng, sig_out))}
    return {'kind': 'fail', 'exc': gen_exc(rng)}


# ----------------------------------------------------------------------------- declarations
PROP_IFACE = 'org.prop'
BAD_PROP_VALUES = ['None', 'object', '[1, None]']     # stored values that do not marshal as a variant / as 's'


def gen_decls(rng, rich=False, props=None):
    """Interfaces, classes, exported objects (JSON-able).  With `props` (or at random) the base
    class carries a DBusProperty `p` (interface org.prop, type 's'); an object's `pval` is the repr
    of the value the application assigns to it after the export ('object' = an unmarshallable one)."""
    n_if = rng.randrange(2, 5) if not rich else 4
    ifaces = []
    for k in range(n_if):
        name = IFACE_NAMES[k] if rng.random() < 0.85 else rng.choice(IFACE_NAMES)   # sometimes a duplicate name
        ms = []
        for m in rng.sample(MEMBERS, rng.randrange(1, 4)):
            ms.append([m, rng.choice(SIGS), rng.choice(SIGS)])
        ifaces.append({'name': name, 'methods': ms})
    if not rich and rng.random() < 0.05:
        # `DBusInterface('', ...)`: an interface without a name (reachable only by calls that name no interface);
        # functions cannot be decorated for it by name - `_searchCache` then looks through every interface's functions
        ifaces[rng.randrange(len(ifaces))]['name'] = ''
    classes = []
    fid = [0]

    def new_attrs(depth, decl=None):
        attrs = []
        used = set()
        # implementations for most declared methods, in either binding style
        wanted = []
        for j in (decl or []):
            for m in ifaces[j]['methods']:
                if rng.random() < 0.7:
                    wanted.append((ifaces[j]['name'], m[0], m[1]))
        rng.shuffle(wanted)
        for (iname, m, sig_in) in wanted:
            if rng.random() < 0.5:
                name, deco = 'dbus_' + m, None
            else:
                name, deco = 'impl_%s_%d' % (m, rng.randrange(3)), [iname, m]
            if name in used:
                continue
            used.add(name)
            fid[0] += 1
            a = {'name': name, 'fid': fid[0], 'deco': deco, 'wants': rng.random() < 0.4}
            arities = {n_complete_types(mm[1]) for ii in ifaces if ii['name'] == iname
                       for mm in ii['methods'] if mm[0] == m}
            if deco is not None and len(arities) == 1 and rng.random() < 0.6:
                # exactly the declared arguments; under a name nothing else uses, so that it is
                # only ever reached for (iname, m)
                used.discard(name)
                a['name'] = 'exact_%d' % fid[0]
                a['arity'] = arities.pop()
                if 1 <= a['arity'] <= 3 and rng.random() < 0.25:
                    # a parameter named dbusCaller that is not the last one: does NOT ask for the caller
                    del a['arity']
                    a['shape'], a['wants'] = 'mid', False
                elif a['arity'] == 0 and rng.random() < 0.4:
                    del a['arity']
                    a['shape'], a['wants'] = 'varargs0', True
            elif rng.random() < 0.45:
                # catch-all / keyword-only parameters around dbusCaller
                if a['wants']:
                    a['shape'] = rng.choice(['kwargs', 'kwonly'])
                elif rng.random() < 0.5:
                    a['shape'] = 'kwonly-caller'
            attrs.append(a)
        for _ in range(rng.randrange(0, 4)):
            m = rng.choice(MEMBERS)
            style = rng.random()
            if style < 0.45:
                name, deco = 'dbus_' + m, None
            elif style < 0.60:
                # dbus_<m> carrying a decorator (same or a different interface / member)
                name = 'dbus_' + m
                deco = [rng.choice(IFACE_NAMES), rng.choice([m, m, rng.choice(MEMBERS)])]
            elif style < 0.92:
                name = rng.choice(['impl_%s' % m, 'impl_%s_%d' % (m, rng.randrange(2)), 'handler'])
                deco = [rng.choice(IFACE_NAMES), m]
            else:
                # an undecorated override of a (possibly decorated) name of a base class
                name, deco = rng.choice(['impl_%s' % m, 'handler']), None
            if name in used:
                continue
            used.add(name)
            fid[0] += 1
            a = {'name': name, 'fid': fid[0], 'deco': deco, 'wants': rng.random() < 0.4}
            if rng.random() < 0.3:
                a['shape'] = rng.choice(['kwargs', 'kwonly']) if a['wants'] else 'kwonly-caller'
            attrs.append(a)
        return attrs

    n_cls = rng.randrange(1, 4)
    for d in range(n_cls):
        decl = None
        if d == 0 or rng.random() < 0.6:
            decl = sorted(rng.sample(range(len(ifaces)), rng.randrange(1, len(ifaces) + 1)))
            if rng.random() < 0.5:
                rng.shuffle(decl)
        bases = ['DBusObject'] if d == 0 else [d - 1]
        classes.append({'bases': bases, 'ifaces': decl, 'attrs': new_attrs(d, decl)})
    if rng.random() < 0.3:
        # a plain mixin placed before the chain: class K(Mixin, <last>)
        classes.append({'bases': ['plain'], 'ifaces': None if rng.random() < 0.5 else [rng.randrange(len(ifaces))],
                        'attrs': new_attrs(0)})
        mix = len(classes) - 1
        classes.append({'bases': [mix, mix - 1], 'ifaces': None, 'attrs': new_attrs(0)})
    # exported objects whose truth value is False or varies (a collection-like object that is empty, `__bool__`):
    # being exported has nothing to do with being truthy
    for c in classes:
        if c['bases'] != ['plain'] and rng.random() < 0.25:
            c['truth'] = rng.choice(['len0', 'false', 'varies'])
    paths = rng.sample(PATHS, rng.randrange(1, 4))
    if rng.random() < 0.1:
        paths.append(paths[0])          # exported twice: the second export replaces the first
    objects = [{'path': p, 'cls': rng.randrange(len(classes))} for p in paths]
    if rng.random() < 0.35:
        # a second INSTANCE of a class that is already exported, at another path (which instance runs must follow the path)
        free = [p for p in PATHS if p not in paths]
        if free:
            objects.append({'path': rng.choice(free), 'cls': objects[0]['cls']})
    two = not rich and rng.random() < 0.3
    if two:
        # a second handler (own connection) in the same process: some objects live there - also an instance of a class
        # that handler 0 exports too, possibly at the SAME path
        for o in objects[1:]:
            if rng.random() < 0.4:
                o['h'] = 1
        objects.append({'path': rng.choice([objects[0]['path'], rng.choice(PATHS)]), 'cls': objects[0]['cls'], 'h': 1})
    if props if props is not None else rng.random() < 0.15:
        names = [i['name'] for i in ifaces]
        own = [j for j in (classes[0]['ifaces'] or []) if names[j] != '' and names.count(names[j]) == 1]
        if own and rng.random() < 0.5:
            # the property lives on an interface that also has METHODS - functions are decorated for it - and may stand
            # before the functions in the class body (the cache entry of its interface is then created first)
            j = rng.choice(own)
            ifaces[j]['props'] = [['p', 's']]
            classes[0]['props'] = [{'name': 'p', 'iface': names[j] if rng.random() < 0.7 else None}]
        else:
            ifaces.append({'name': PROP_IFACE, 'methods': [], 'props': [['p', 's']]})
            classes[0]['ifaces'] = (classes[0]['ifaces'] or []) + [len(ifaces) - 1]
            classes[0]['props'] = ['p']
        classes[0]['props_at'] = rng.choice([0, 0, None, rng.randrange(0, len(classes[0]['attrs']) + 1)])
        if not rich and '' not in names and rng.random() < 0.3:
            # ... and one of the OTHER interfaces has no name: a call without interface that finds it looks through the
            # functions of every interface in cache order
            cand = [j for j in range(len(names)) if 'props' not in ifaces[j]]
            if cand:
                ifaces[rng.choice(cand)]['name'] = ''
        for o in objects:
            o['pval'] = rng.choice(["'v'", "'other'"] + BAD_PROP_VALUES)
    # a plain mixin alone is not exportable
    for o in objects:
        while classes[o['cls']]['bases'] == ['plain']:
            o['cls'] = rng.randrange(len(classes))
    return {'ifaces': ifaces, 'classes': classes, 'objects': objects, 'two_handlers': two}


def declared_ifaces_of(decls, cls_idx):
    """Indices of the interfaces an object of class `cls_idx` has, in __mro__ order (harness-side
    bookkeeping, computed on the spec with a C3 linearisation done by Python itself)."""
    dummy = {}

    def mk(i):
        if i in dummy:
            return dummy[i]
        c = decls['classes'][i]
        bases = tuple(object if b in ('DBusObject', 'plain') else mk(b) for b in c['bases'])
        bases = tuple(b for b in bases if b is not object) or (object,)
        dummy[i] = type('D%d' % i, bases, {'_idx': i})
        return dummy[i]
    out = []
    for k in mk(cls_idx).__mro__:
        if k is object:
            continue
        decl = decls['classes'][k.__dict__['_idx']]['ifaces']
        if decl is not None:
            out.extend(decl)
    return out


def gen_call(rng, decls, builtin_bias=0.10):
    """One call spec against the declarations."""
    objs = decls['objects']
    o = rng.choice(objs)
    r = rng.random()
    if r < 0.80:
        path = o['path']
    elif r < 0.90:
        path = rng.choice(OTHER_PATHS)
    else:
        path = rng.choice(PATHS)
    my_if = [j for j in declared_ifaces_of(decls, o['cls']) if decls['ifaces'][j]['methods']]
    iface = member = None
    sig_in = ''
    r = rng.random()
    if r < builtin_bias:
        iface, member = rng.choice(BUILTINS)
        if rng.random() < 0.15:
            member = rng.choice(MEMBERS)
    elif my_if and r < 0.80:
        ifc = decls['ifaces'][rng.choice(my_if)]
        iface = ifc['name']
        m = rng.choice(ifc['methods'])
        member, sig_in = m[0], m[1]
        if rng.random() < 0.12:
            member = rng.choice(MEMBERS)
        if rng.random() < 0.25:
            iface = None
        elif rng.random() < 0.10:
            iface = rng.choice(IFACE_NAMES + ['org.zzz'])
    else:
        iface = rng.choice(IFACE_NAMES + ['org.zzz', None])
        member = rng.choice(MEMBERS + ['nosuch'])
        sig_in = rng.choice(SIGS)
    if rng.random() < 0.15:
        sig_in = rng.choice(SIGS)
    if iface == '':
        iface = None        # an interface without a name cannot be named in a call (the message constructor refuses '')
    body = gen_value(rng, sig_in)
    sig = sig_in if sig_in != '' else rng.choice([None, None, ''])
    sender = rng.choice([':1.7', ':1.7', ':1.42', 'org.caller', None])
    op = {'op': 'call', 'path': path, 'iface': iface, 'member': member, 'sig': sig, 'body': repr(body),
          'sender': sender, 'serial': rng.choice([1, 2, 77, 2573, 2 ** 32 - 1, rng.randrange(1, 2 ** 32)]),
          'expectReply': rng.random() < 0.7, 'autoStart': rng.random() < 0.6, 'flag4': rng.random() < 0.3}
    if decls.get('two_handlers'):
        # mostly the handler the chosen object lives on; sometimes the other one (same path, other table)
        h = o.get('h', 0)
        op['h'] = h if rng.random() < 0.85 else 1 - h
    return op


# ----------------------------------------------------------------------------- building the real thing
class Recorder:
    """Fake connection + invocation log of one scenario."""

    def __init__(self):
        self.log = []           # ('sent', msg) | ('inv', fid, args, caller)
        self.outcome = None     # set before each call: what the invoked user function does
        self.deferreds = {}     # op index -> Deferred returned by the user function of that call
        self.current = None     # op index of the call being dispatched

    def sendMessage(self, m):
        # what a caller sees is the BYTES: keep the message re-parsed from its rawMessage next to
        # the Python object (the object is only used to recognise which value went into the body)
        from txdbus import message
        try:
            wire = message.parseMessage(m.rawMessage, [])
        except Exception as e:     # noqa
            wire = e
        self.log.append(('sent', m, wire, self.conn_index))

    conn_index = 0      # this object is the connection of handler 0; `SideConn` is the one of handler 1

    def invoked(self, fid, args, caller, inst=None):
        from twisted.internet import defer
        self.log.append(('inv', fid, args, caller, inst))
        oc = self.outcome
        kind = oc['kind']
        if kind == 'value':
            return oc['_value']
        if kind == 'raise':
            raise make_exc(oc['exc'])
        if kind == 'fired':
            return defer.succeed(oc['_value'])
        if kind == 'failed':
            return defer.fail(make_exc(oc['exc']))
        if kind == 'coro-value':
            async def co():
                return oc['_value']
            return co()
        if kind == 'coro-raise':
            async def co():
                raise make_exc(oc['exc'])
            return co()
        d = defer.Deferred()
        self.deferreds[self.current] = d
        return d


class SideConn:
    """The connection of the SECOND handler of a scenario: same log, other index."""
    conn_index = 1

    def __init__(self, rec):
        self.rec = rec

    def sendMessage(self, m):
        n0 = len(self.rec.log)
        Recorder.sendMessage(self.rec, m)
        self.rec.log[n0:] = [e[:3] + (1,) for e in self.rec.log[n0:]]


_exc_classes = {}


def make_exc(spec):
    base = {'Exception': Exception, 'ValueError': ValueError, 'KeyError': KeyError}.get(spec['cls'])
    if base is None:
        if spec['cls'] not in _exc_classes:
            _exc_classes[spec['cls']] = type(spec['cls'], (Exception,), {})
        base = _exc_classes[spec['cls']]
    if base is KeyError:
        # str(KeyError('x')) is repr('x'); keep the text the spec says by overriding __str__
        base = _exc_classes.setdefault('KeyError!', type('KeyError', (KeyError,), {'__str__': lambda s: s.args[0]}))
    class_level = spec.get('name_attr') and spec.get('name_level') == 'class'
    if class_level:
        # the usual idiom: `class MyErr(Exception): dbusErrorName = '...'`
        key = ('cls-level', base, repr(spec['name']))
        if key not in _exc_classes:
            _exc_classes[key] = type(base.__name__, (base,), {'dbusErrorName': spec['name']})
        base = _exc_classes[key]
    if base.__name__ == 'KeyError' or spec['text'] != '' or spec.get('with_arg'):
        e = base(spec['text'])
    else:
        e = base()
    if spec.get('name_attr') and not class_level:
        e.dbusErrorName = spec['name']
    return e


def exc_text(spec):
    return spec['text']


def make_func(rec, name, fid, deco, wants, arity=None, shape=None):
    """A recording user method.  `arity=None`: accepts any number of positional arguments;
    otherwise exactly `arity` of them (`def f(self, a0, .., dbusCaller)` when it wants the caller).
    `shape='mid'`: `def f(self, dbusCaller, a1=.., a2=..)` - a parameter named dbusCaller that is NOT
    the last one: the method does not ask for the caller, its first argument lands there."""
    from txdbus import objects
    if shape == 'mid':
        def f(self, dbusCaller, a1=_M, a2=_M, a3=_M):
            return rec.invoked(fid, [dbusCaller] + [a for a in (a1, a2, a3) if a is not _M], _M, self)
    elif shape == 'kwargs':
        # dbusCaller is the last NAMED POSITIONAL parameter, a **catch-all follows: asks for the caller
        def f(self, a0=_M, a1=_M, a2=_M, a3=_M, dbusCaller=_M, **options):
            return rec.invoked(fid, [a for a in (a0, a1, a2, a3) if a is not _M], dbusCaller, self)
    elif shape == 'kwonly':
        # keyword-only parameters after dbusCaller: asks for the caller
        def f(self, a0=_M, a1=_M, a2=_M, a3=_M, dbusCaller=_M, *, flag=None, other=1):
            return rec.invoked(fid, [a for a in (a0, a1, a2, a3) if a is not _M], dbusCaller, self)
    elif shape == 'varargs0':
        # `(self, dbusCaller=None, *extra)`: asks for the caller (only bound to members without arguments)
        def f(self, dbusCaller=_M, *extra):
            return rec.invoked(fid, list(extra), dbusCaller, self)
    elif shape == 'kwonly-caller':
        # a KEYWORD-ONLY dbusCaller is not among the named positional parameters: by the code's rule
        # (inspect.getfullargspec()[0]) this method does not ask for the caller
        def f(self, *args, dbusCaller=_M):
            return rec.invoked(fid, list(args), dbusCaller, self)
    elif arity is not None:
        params = ['self'] + ['a%d' % i for i in range(arity)] + (['dbusCaller'] if wants else [])
        src = 'lambda %s: _rec.invoked(_fid, [%s], %s, self)' % (
            ', '.join(params), ', '.join('a%d' % i for i in range(arity)), 'dbusCaller' if wants else '_M')
        f = eval(src, {'_rec': rec, '_fid': fid, '_M': _M})
    elif wants:
        def f(self, a0=_M, a1=_M, a2=_M, a3=_M, dbusCaller=_M):
            return rec.invoked(fid, [a for a in (a0, a1, a2, a3) if a is not _M], dbusCaller, self)
    else:
        def f(self, *args):
            return rec.invoked(fid, list(args), _M, self)
    f.__name__ = name
    f.__qualname__ = name
    f._fid = fid
    f._spec_deco = tuple(deco) if deco is not None else None     # what the declaration SAYS (harness-side truth)
    if deco is not None:
        g = objects.dbusMethod(deco[0], deco[1])(f)      # the real decorator
        if g is not f:                                   # a decorator that wraps must keep our bookkeeping
            for a in ('_fid', '_spec_deco'):
                try:
                    setattr(g, a, getattr(f, a))
                except Exception:
                    pass
        f = g
    return f


def deco_of(f):
    """(interface, member) a function is declared for with @dbusMethod: from the scenario's
    declaration for harness-built functions, from the attributes for the library's own ones."""
    if hasattr(f, '_spec_deco'):
        return f._spec_deco
    from txdbus import objects
    return L.deco_of_library(objects, f, LOC_NOTES)


class Built:
    """The real objects of a scenario."""

    def __init__(self, decls):
        from txdbus import interface, objects
        self.decls = decls
        self.rec = Recorder()
        self.handler = objects.DBusObjectHandler(self.rec)
        # a SECOND handler (own connection) in the same process: the classes - and with them every piece of state the
        # library keeps on classes - are shared between the two
        self.handler1 = objects.DBusObjectHandler(SideConn(self.rec))
        self.handlers = [self.handler, self.handler1]
        self.ifaces = []
        for i in decls['ifaces']:
            members = [interface.Method(m[0], m[1], m[2]) for m in i['methods']]
            members += [interface.Property(pr[0], pr[1], readable=(len(pr) < 3 or 'r' in pr[2]), writeable=True)
                        for pr in i.get('props', [])]
            self.ifaces.append(interface.DBusInterface(i['name'], *members, noRegister=True))
        self.classes = []
        for k, c in enumerate(decls['classes']):
            bases = []
            for b in c['bases']:
                if b == 'DBusObject':
                    bases.append(objects.DBusObject)
                elif b == 'plain':
                    pass
                else:
                    bases.append(self.classes[b])
            ns = {}
            if c['ifaces'] is not None:
                ns['dbusInterfaces'] = [self.ifaces[j] for j in c['ifaces']]
            # DBusProperty attributes: a plain name is a property of PROP_IFACE named explicitly; a dict
            # {'name', 'iface'} may leave the interface open (`DBusProperty(name)`: bound, at the first walk of the
            # class caches, to whichever interface of the CONCRETE class in use lists the property)
            props = [pn if isinstance(pn, dict) else {'name': pn, 'iface': PROP_IFACE} for pn in c.get('props', [])]

            def add_props():
                for pd in props:
                    ns[pd['name']] = objects.DBusProperty(pd['name'], pd['iface'])
            # class body order: the properties before (`props_first`), between (`props_at` = number of methods before
            # them) or after the methods
            pa = c.get('props_at', 0 if c.get('props_first') else None)
            for idx, a in enumerate(c['attrs']):
                if pa == idx:
                    add_props()
                ns[a['name']] = make_func(self.rec, a['name'], a['fid'], a['deco'], a['wants'], a.get('arity'), a.get('shape'))
            if c.get('truth') == 'len0':
                ns['__len__'] = lambda self: 0
            elif c.get('truth') == 'false':
                ns['__bool__'] = lambda self: False
            elif c.get('truth') == 'varies':
                def __bool__(self):
                    self.__dict__['_truth_n'] = self.__dict__.get('_truth_n', 0) + 1
                    return self.__dict__['_truth_n'] % 3 == 0
                ns['__bool__'] = __bool__
            if pa is None or pa >= len(c['attrs']):
                add_props()
            if props and c.get('assign_in_init', True):
                def __init__(self, path, _pns=tuple(pd['name'] for pd in props)):
                    objects.DBusObject.__init__(self, path)
                    for _pn in _pns:
                        setattr(self, _pn, 'initial')
                ns['__init__'] = __init__
            self.classes.append(type('K%d' % k, tuple(bases) or (object,), ns))
        self.objects = []
        self.exported = {}          # handler 0: path -> object
        self.exported1 = {}         # handler 1
        self.exp = [self.exported, self.exported1]
        self.failed_exports = 0
        for o in decls['objects']:
            self.export(o)
        self.rec.log.clear()

    def export(self, o):
        """`exportObject` of a fresh object described by {'path', 'cls', ['pval']}.  Returns the object, or None
        when creating / exporting it raised (a misdeclared class: the application logs that and carries on) - then
        nothing is exported by this step; `self.failed_exports` counts them."""
        h = o.get('h', 0)
        try:
            obj = self.classes[o['cls']](o['path'])
            self.handlers[h].exportObject(obj)
        except Exception:       # noqa: whatever the library raises for a class it cannot use
            self.failed_exports += 1
            # what is visible at the path now is the handler's (and C16's) business: follow it
            cur = L.exports_of(self.handlers[h], LOC_NOTES).get(o['path'])
            if cur is None:
                self.exp[h].pop(o['path'], None)
            else:
                self.exp[h][o['path']] = cur
            return None
        self.objects.append(obj)
        self.exp[h][o['path']] = obj
        if 'pval' in o and any('p' in vars(k) for k in type(obj).__mro__):     # (hasattr on the class would call the descriptor)
            try:
                obj.p = parse_value(o['pval'])      # the application assigns; a bad value raises here
            except Exception:                       # ... after it has been stored
                pass
        return obj

    def unexport(self, path, h=0):
        """`unexportObject(path)`; a path that is not exported raises KeyError to the application."""
        self.exp[h].pop(path, None)
        try:
            self.handlers[h].unexportObject(path)
        except KeyError:
            pass

    # -- the object tokens of the model, read off the REAL classes
    @staticmethod
    def class_tokens(k):
        """One class of an __mro__ as the model's `Class`: dbusInterfaces (methods only) and the functions of its
        __dict__.  Functions of the library's DBusObject carry the ids of the generated table
        (tools/tables/c10_builtin.py: 10000 + position), harness functions their `_fid`."""
        from txdbus import objects
        lib = {id(f): 10000 + n for n, (_, f) in
               enumerate((a, f) for a, f in vars(objects.DBusObject).items() if inspect.isfunction(f))}
        d = vars(k)
        has = 'dbusInterfaces' in d
        ifs = d['dbusInterfaces'] if has else []
        toks = ['1' if has else '0', str(len(ifs))]
        for i in ifs:
            toks += [str_hex(i.name), str(len(i.methods))]
            for mn, m in i.methods.items():
                toks += [str_hex(mn), str_hex(m.sigIn), str_hex(m.sigOut), str(L.nret_of(_marshal_mod(), m))]
        fns = [(n, f) for n, f in d.items() if inspect.isfunction(f)]
        toks.append(str(len(fns)))
        for n, f in fns:
            code = f.__code__
            pos = code.co_varnames[:code.co_argcount]       # positional parameter names, self included
            fid = getattr(f, '_fid', None)
            if fid is None:
                fid = lib.get(id(f), 9000 + sum(map(ord, n)) % 997)
            toks += [str_hex(n), str(fid)]
            d2 = deco_of(f)
            if d2 is not None:
                toks += ['1', str_hex(d2[0]), str_hex(d2[1])]
            else:
                toks.append('0')
            toks += [str(len(pos))] + [str_hex(x) for x in pos]
        # DBusProperty attributes in class-body order: how many FUNCTIONS precede each, and the interface it is bound
        # to (they implement no member, but `_cacheInterfaces` creates the cache entry of their interface, which fixes
        # the dict order the lookup for a nameless interface scans)
        pk, nf = [], 0
        for n, v in d.items():
            if inspect.isfunction(v):
                nf += 1
            elif isinstance(v, objects.DBusProperty):
                pk.append((nf, v.interface))
        pk = [(n, i) for n, i in pk if isinstance(i, str)]
        toks.append(str(len(pk)))
        for n, i in pk:
            toks += [str(n), str_hex(i)]
        return toks

    @staticmethod
    def obj_tokens(path, obj):
        mro = [k for k in type(obj).__mro__ if k is not object]
        toks = [str_hex(path), str(len(mro))]
        for k in mro:
            toks += Built.class_tokens(k)
        return toks

    def export_lines(self):
        return [' '.join((['h1'] if h else []) + ['export'] + self.obj_tokens(path, obj))
                for h in (0, 1) for path, obj in L.exports_of(self.handlers[h], LOC_NOTES).items()]


def kwonly_caller(f):
    code = f.__code__
    return 'dbusCaller' in code.co_varnames[code.co_argcount:code.co_argcount + code.co_kwonlyargcount]


def _marshal_mod():
    from txdbus import marshal
    return marshal


def wants_caller(f):
    """The statement's "asks for it", decided from the function's signature alone (harness side):
    the last positional parameter is named dbusCaller."""
    code = f.__code__
    pos = code.co_varnames[:code.co_argcount]
    return len(pos) >= 1 and pos[-1] == 'dbusCaller'


def parse_value(s):
    """repr-string of the spec -> value (`object` stands for an unmarshallable class object)."""
    try:
        return ast.literal_eval(s)
    except (ValueError, SyntaxError):
        return object


def build_call_message(op):
    """Real bytes of the call, parsed back: the message handed to the dispatcher.  All eight values
    of the low three flag bits occur: NO_REPLY_EXPECTED (0x1) from `expectReply`, NO_AUTO_START (0x2)
    from `autoStart`, ALLOW_INTERACTIVE_AUTHORIZATION (0x4) patched into the flags byte.  The bytes come
    from the public constructor + the re-marshal entry point (harness/c10_locate.call_bytes)."""
    from txdbus import marshal, message
    raw = L.call_bytes(message, marshal, op['path'], op['member'], iface=op['iface'], destination=':1.1',
                       sender=op['sender'], signature=op['sig'], body=parse_value(op['body']),
                       expect_reply=op['expectReply'], auto_start=op.get('autoStart', True),
                       flag4=bool(op.get('flag4')), serial=op['serial'], notes=LOC_NOTES)
    return message.parseMessage(raw, [])


# ----------------------------------------------------------------------------- encodability (parameter of the model)
def enc_probe(sig_out, body):
    """Does MethodReturnMessage(..., body=body, signature=sig_out) raise?  None or the exception spec."""
    from txdbus import message
    from twisted.python import failure
    try:
        message.MethodReturnMessage(1, body=body, destination=':1.1', signature=sig_out)
        return None
    except Exception as e:     # noqa: the callback chain catches everything
        return {'cls': e.__class__.__name__, 'name': getattr(e, 'dbusErrorName', None),
                'text': failure.Failure(e).getErrorMessage()}


def managed_probe(handler, path):
    """Does building the GetManagedObjects reply for `path` raise?  None or the exception spec."""
    from txdbus import message
    from twisted.python import failure
    try:
        body = L.managed_objects(handler, path, LOC_NOTES)
        message.MethodReturnMessage(1, body=[body], destination=':1.1', signature='a{oa{sa{sv}}}')
        return None
    except Exception as e:     # noqa
        return {'cls': e.__class__.__name__, 'name': getattr(e, 'dbusErrorName', None),
                'text': failure.Failure(e).getErrorMessage()}


def is_seq(v):
    return isinstance(v, (list, tuple))


def name0_of(exc):
    from txdbus import objects   # noqa: F401  (only to make sure the tree is importable)
    n = exc.get('name') if exc.get('name_attr', exc.get('name') is not None) else None
    if n is None:
        return 'org.txdbus.PythonException.' + exc['cls']
    return n


def valid_error_name(n):
    from txdbus import marshal, error
    try:
        marshal.validateErrorName(n)
        return True
    except error.MarshallingError:
        return False


def exc_tokens(exc):
    n = exc.get('name') if exc.get('name_attr', exc.get('name') is not None) else None
    return [str_hex(exc['cls']), opt_hex(n), str_hex(exc['text'])]


def enc_tokens(e):
    return ['ok'] if e is None else ['E'] + exc_tokens(e)


def value_tokens(value, sig_out, names):
    """<outcome>/<resolution> tokens for a returned value + the enc parameters."""
    if is_seq(value):
        w = enc_probe(sig_out, [value])
        f = enc_probe(sig_out, value)
        for e in (w, f):
            if e is not None:
                names.append(name0_of(e))
        return ['VS', str(len(value))] + enc_tokens(w) + enc_tokens(f)
    e = enc_probe(sig_out, [value])
    if e is not None:
        names.append(name0_of(e))
    return ['V1'] + enc_tokens(e)


def names_tokens(names):
    names = list(dict.fromkeys(names))
    toks = [str(len(names))]
    for n in names:
        toks += [str_hex(n), '1' if valid_error_name(n) else '0']
    return toks


# ----------------------------------------------------------------------------- running a scenario
def spec_ifaces(built, obj):
    """(interface name, {member: (sigIn, sigOut)}) in declaration order along the class chain - from the spec."""
    decls = built.decls
    idx = built.classes.index(type(obj))
    out = []
    for j in declared_ifaces_of(decls, idx):
        i = decls['ifaces'][j]
        ms = {}
        for m in i['methods']:
            ms[m[0]] = (m[1], m[2])
        out.append((i['name'], ms))
    out.append(('org.freedesktop.DBus.Properties',
                {'Get': ('ss', 'v'), 'Set': ('ssv', ''), 'GetAll': ('s', 'a{sv}')}))
    return out


def n_complete_types(sig):
    """Number of complete types of a signature from SIGS / Properties (harness-side, by bracket depth)."""
    n = depth = 0
    i = 0
    while i < len(sig):
        c = sig[i]
        if c == 'a':
            i += 1
            continue
        if c in '({':
            depth += 1
        elif c in ')}':
            depth -= 1
        if depth == 0:
            n += 1
        i += 1
    return n


def binding_candidates(obj, iname, member):
    """Every function that can reasonably be called "the implementation bound to (interface, member)"
    on this object - the statement does not say how ties are broken, so the monitor does not either:
      * the method named `dbus_<member>` (Python attribute lookup), unless it carries a decorator
        for a different interface;
      * every function of the class chain decorated `@dbusMethod(iname, member)`: the function
        itself, and what its name resolves to on the instance (an override in a derived class).
    Returns the list of distinct functions."""
    out = []

    def add(f):
        f = getattr(f, '__func__', f)
        if inspect.isfunction(f) and all(f is not g for g in out):
            out.append(f)
    m = getattr(obj, 'dbus_' + member, None)
    if m is not None:
        d = deco_of(getattr(m, '__func__', m))
        if d is None or d[0] == iname:
            add(m)
    for k in type(obj).__mro__:
        if k is object:
            continue
        for n, f in vars(k).items():
            if inspect.isfunction(f) and deco_of(f) == (iname, member):
                add(f)
                add(getattr(obj, n))
    return out


def expected_of(built, op):
    """Verdict of the property statement for a call: builtin | unknown-object | unknown-method |
    invalid-args | unbound | run(fid, wants, sig_out) | ambiguous.

    `ambiguous`: the declarations do not determine the answer and the statement is silent about the
    tie-break - the call names no interface and several interfaces have the member; the chain
    declares the addressed interface name twice with different definitions of the member; or
    several distinct functions are candidates for the binding.  Such calls are still compared
    with the model (which mirrors the code's tie-breaks) but the monitor only applies the rules
    that do not depend on the tie-break."""
    pair = (op['iface'], op['member'])
    table = built.exp[op.get('h', 0)]       # what the application exported on the handler that gets the call
    exported = op['path'] in table
    if pair == PEER:
        return {'v': 'builtin'}
    if pair == INTRO:
        below = any(p.startswith(op['path'] if op['path'].endswith('/') else op['path'] + '/')
                    for p in table)
        if exported or below:
            return {'v': 'builtin'}
    if not exported:
        return {'v': 'unknown-object'}
    if pair == MANAGED:
        return {'v': 'builtin'}
    obj = table[op['path']]
    ifs = spec_ifaces(built, obj)
    if op['iface']:
        cands = [(name, ms.get(op['member'])) for name, ms in ifs if name == op['iface']]
        if not cands:
            return {'v': 'unknown-method'}
        if any(c[1] != cands[0][1] for c in cands):
            return {'v': 'ambiguous', 'why': 'interface declared twice', 'fids': None}
    else:
        cands = [(name, ms[op['member']]) for name, ms in ifs if op['member'] in ms]
        if len(cands) > 1:
            return {'v': 'ambiguous', 'why': 'no interface, several have the member', 'fids': None}
    if not cands or cands[0][1] is None:
        return {'v': 'unknown-method'}
    iname, (sig_in, sig_out) = cands[0]
    if (op['sig'] or '') != sig_in:
        return {'v': 'invalid-args'}
    if iname == '':
        # an interface without a name: what "the implementation bound to path, interface and member" is, the statement
        # does not say (no function can name it in @dbusMethod); only the tie-break-free rules are applied by the
        # monitor - the model (spec `decoratedAnyIn`) is still compared with the code
        return {'v': 'ambiguous', 'why': NAMELESS, 'fids': None, 'sig_out': sig_out}
    fs = binding_candidates(obj, iname, op['member'])
    if not fs:
        return {'v': 'unbound', 'sig_out': sig_out}
    if len(fs) > 1:
        return {'v': 'ambiguous', 'why': 'several candidate bindings', 'fids': [getattr(f, '_fid', None) for f in fs],
                'sig_out': sig_out}
    f = fs[0]
    return {'v': 'run', 'fid': getattr(f, '_fid', None), 'wants': wants_caller(f),
            'sig_out': sig_out, 'iface': iname,
            'style': 'decorator' if deco_of(f) is not None else 'dbus_name'}


NAMELESS = 'interface without a name'

LOOKUP_ERRORS = {'unknown-object': 'org.freedesktop.DBus.Error.UnknownObject',
                 'unknown-method': 'org.freedesktop.DBus.Error.UnknownMethod',
                 'invalid-args': 'org.freedesktop.DBus.Error.InvalidArgs'}


class CallRecord:
    def __init__(self, k, op, msg, exp):
        self.k, self.op, self.exp = k, op, exp
        self.h = op.get('h', 0)
        # what the CALLER put into the message (the parsed fields are the implementation's business)
        self.serial, self.sender, self.expect_reply = op['serial'], op['sender'], op['expectReply']
        self.decoded = copy.deepcopy(msg.body) if msg.body is not None else []
        self.events = []            # everything logged while this call / its resolutions were handled
        self.outcome = None         # outcome spec used by the invoked function
        self.resolved = None        # first resolution spec applied to its Deferred
        self.returned_deferred = False
        self.raised = False
        self.caller_rule_open = False


class Scenario:
    """Runs a scenario spec on the real code; produces per-operation canonical lines, model lines
    and monitor verdicts."""

    def __init__(self, spec):
        self.spec = spec
        self.built = Built(spec['decls'])
        self.calls = {}             # op index -> CallRecord
        self.impl_lines = []
        self.model_lines = ['reset'] + self.built.export_lines()
        self.n_prefix = len(self.model_lines)
        self.problems = []          # (key, what, op index, observed, expected)
        self.model_ok = True
        self.managed_failures = 0      # GetManagedObjects calls whose reply could not be built (error reply or exception)

    # ---- canonical event text (must equal Driver/C10.lean's showEvent); every field of a message is
    # read from the message RE-PARSED from its bytes
    def canon_events(self, cr, events, ret_value):
        from txdbus import message
        out = []
        for ev in events:
            if ev[0] == 'inv':
                _, fid, args, caller = ev[:4]
                n = str(len(args)) if args == cr.decoded else 'X'
                c = '-' if caller is _M else opt_hex(caller)
                out.append('inv %d %s %s' % (fid, n, c))
                continue
            m, w = ev[1], ev[2]
            if ev[3] != cr.h:
                out.append('on-connection-%d:%s' % (ev[3], type(w).__name__))      # left on the OTHER handler's connection
            elif isinstance(w, Exception):
                out.append('unparseable:' + type(w).__name__)
            elif isinstance(w, message.ErrorMessage):
                text = w.body[0] if w.body else ''
                out.append('err %s %d %s %s' % (str_hex(w.error_name), w.reply_serial, opt_hex(w.destination),
                                                str_hex(text) if not has_surrogate(text) else 'SURROGATE'))
            elif isinstance(w, message.MethodReturnMessage):
                if w.body is None and w.signature is None:
                    b = 'empty'
                elif ret_value is _M and (cr.op['iface'], cr.op['member']) == INTRO and isinstance(w.body, list) \
                        and len(w.body) == 1 and isinstance(w.body[0], str):
                    b = 'xml'          # the XML itself is C16's
                elif ret_value is _M and (cr.op['iface'], cr.op['member']) == MANAGED and isinstance(w.body, list) \
                        and len(w.body) == 1 and isinstance(w.body[0], dict):
                    b = 'managed'      # the content is C16's
                elif ret_value is not _M and m.body is ret_value:
                    b = 'vals:' + ','.join(str(i) for i in range(len(ret_value)))
                elif ret_value is not _M and isinstance(m.body, list) and len(m.body) == 1 and m.body[0] is ret_value:
                    b = 'vals:1000' if is_seq(ret_value) else 'vals:100'
                else:
                    b = 'body?'
                out.append('ret %d %s %s %s' % (w.reply_serial, opt_hex(w.destination), opt_hex(w.signature), b))
            else:
                out.append('other:' + type(w).__name__)
        return ' | '.join(out) if out else 'none'

    def run(self):
        rec = self.built.rec
        for k, op in enumerate(self.spec['ops']):
            rec.log.clear()
            if op['op'] == 'call':
                self.do_call(k, op)
            elif op['op'] == 'resolve':
                self.do_resolve(k, op)
            elif op['op'] == 'export':
                obj = self.built.export(op)
                hp = 'h1 ' if op.get('h', 0) else ''
                if obj is None:
                    # the export raised: no operation of the dispatcher (only the numbering of the history advances)
                    self.model_lines.append('opfailed')
                else:
                    self.model_lines.append(hp + ' '.join(['opexport'] + Built.obj_tokens(op['path'], obj)))
                self.impl_lines.append('none')
            else:
                self.built.unexport(op['path'], op.get('h', 0))
                self.model_lines.append(('h1 ' if op.get('h', 0) else '') + 'opunexport ' + str_hex(op['path']))
                self.impl_lines.append('none')
        self.finish()

    def do_call(self, k, op):
        rec = self.built.rec
        msg = build_call_message(op)
        exp = expected_of(self.built, op)
        cr = CallRecord(k, op, msg, exp)
        self.calls[k] = cr
        oc = dict(op['outcome'])
        if oc['kind'] in ('value', 'fired', 'coro-value'):
            oc['_value'] = parse_value(oc['value'])
        cr.outcome = oc
        rec.outcome = oc
        rec.current = k
        raised = None
        try:
            self.built.handlers[cr.h].handleMethodCallMessage(msg)
        except Exception as e:      # would escape dataReceived: the connection is lost
            raised = e
        events = list(rec.log)
        cr.events.extend(events)
        cr.returned_deferred = k in rec.deferreds
        rv = oc.get('_value', _M) if any(e[0] == 'inv' for e in events) else _M
        line = self.canon_events(cr, events, rv)
        if (op['iface'], op['member']) == MANAGED and (raised is not None or line.startswith('err ')) \
                and op['path'] in self.built.exp[cr.h]:
            self.managed_failures += 1
        if raised is not None:
            line += ' | RAISED ' + type(raised).__name__
            cr.raised = True
            if op['expectReply']:      # the statement demands a reply only then
                    self.problems.append(('dispatcher-raised-no-reply', 'handleMethodCallMessage raised %s (%s) for a call to %s.%s '
                                  'on %s: no reply is sent although the call expects one, and the exception escapes into '
                                  'dataReceived (the connection is dropped)'
                                  % (type(raised).__name__, raised, op['iface'], op['member'], op['path']), k, line,
                                  'exactly one reply'))
        self.impl_lines.append(line)
        self.check_after_call(cr)
        # model line
        try:
            self.model_lines.append(('h1 ' if cr.h else '') + self.call_model_line(cr, op, oc))
        except (TypeError, ValueError):
            self.model_ok = False
            self.model_lines.append('unrepresentable')

    def call_model_line(self, cr, op, oc):
        names = []
        toks = ['call', str_hex(op['path']), opt_hex(op['iface']), str_hex(op['member']), opt_hex(op['sig']),
                opt_hex(op['sender']), str(op['serial']), '1' if op['expectReply'] else '0',
                str(len(cr.decoded))]
        sig_out = cr.sig_out_model = self.sig_out_for_model(op)
        if oc['kind'] in ('value', 'fired', 'coro-value'):
            otoks = value_tokens(oc['_value'], sig_out, names)
        elif oc['kind'] in ('raise', 'failed', 'coro-raise'):
            names.append(name0_of(oc['exc']))
            otoks = ['R'] + exc_tokens(oc['exc'])
        else:
            otoks = ['D']
        names.append('org.txdbus.PythonException.NotImplementedError')
        menc = None
        if (op['iface'], op['member']) == MANAGED and op['path'] in L.exports_of(self.built.handlers[cr.h], LOC_NOTES):
            menc = managed_probe(self.built.handlers[cr.h], op['path'])
        return ' '.join(toks + names_tokens(names) + enc_tokens(menc) + otoks)

    def sig_out_for_model(self, op):
        """sigOut of the method the REAL lookup finds (only used to evaluate the model's `encErr`
        parameter on the real codec; '' when the lookup fails - then no value is ever encoded)."""
        obj = L.exports_of(self.built.handlers[op.get('h', 0)], LOC_NOTES).get(op['path'])
        if obj is None:
            return ''
        for x in obj.getInterfaces():
            if op['iface']:
                if x.name == op['iface']:
                    m = x.methods.get(op['member'])
                    return m.sigOut if m is not None else ''
            elif op['member'] in x.methods:
                return x.methods[op['member']].sigOut
        return ''

    def do_resolve(self, k, op):
        from twisted.internet import defer
        from twisted.python import failure
        rec = self.built.rec
        target = op['k']
        res = dict(op['res'])
        cr = self.calls.get(target)
        d = rec.deferreds.get(target)
        names = []
        if res['kind'] == 'value':
            res['_value'] = parse_value(res['value'])
        sig_out = getattr(cr, 'sig_out_model', '') if cr is not None else ''
        try:
            if res['kind'] == 'value':
                rtoks = value_tokens(res['_value'], sig_out, names)
            else:
                names.append(name0_of(res['exc']))
                rtoks = ['F'] + exc_tokens(res['exc'])
            self.model_lines.append(('h1 ' if cr is not None and cr.h else '') +
                                    ' '.join(['resolve', str(target)] + names_tokens(names) + rtoks))
        except (TypeError, ValueError):
            self.model_ok = False
            self.model_lines.append('unrepresentable')
        if d is None:
            self.impl_lines.append('none')
            return
        try:
            if res['kind'] == 'value':
                d.callback(res['_value'])
            else:
                d.errback(failure.Failure(make_exc(res['exc'])))
        except defer.AlreadyCalledError:
            self.impl_lines.append('none')
            return
        d.addErrback(lambda f: None)      # keep an unhandled failure of a no-reply call out of the log
        events = list(rec.log)
        cr.events.extend(events)
        first = cr.resolved is None
        if first:
            cr.resolved = res
        self.impl_lines.append(self.canon_events(cr, events, res.get('_value', _M)))
        self.check_after_resolve(cr, res, events)

    # ---- the monitor (from the property statement; implementation only).  Replies are judged on
    # what a caller receives: the message re-parsed from its bytes.
    def replies_of(self, events, h=0):
        """The replies the CALLER can receive: those sent on the connection the call arrived on."""
        from txdbus import message
        return [e[2] for e in events if e[0] == 'sent' and e[3] == h
                and isinstance(e[2], (message.MethodReturnMessage, message.ErrorMessage))]

    def problem(self, key, what, cr, observed=None, expected=None):
        self.problems.append((key, what, cr.k, observed, expected))

    def func_of(self, fid):
        for k in self.built.classes:
            for f in vars(k).values():
                if inspect.isfunction(f) and getattr(f, '_fid', None) == fid:
                    return f
        return None

    def check_addressing(self, cr, events):
        from txdbus import message
        for e in events:
            if e[0] != 'sent':
                continue
            w = e[2]
            if e[3] != cr.h:
                self.problem('reply-on-wrong-connection', 'a %s for the call left on the connection of ANOTHER handler of the '
                             'process: the caller cannot receive it' % type(w).__name__, cr, 'connection %d' % e[3],
                             'connection %d' % cr.h)
                continue
            if isinstance(w, Exception):
                self.problem('reply-unparseable', 'the bytes of the reply do not parse (%r): the body on the wire does not match the '
                             'signature in its header - the caller receives no usable reply' % (w,), cr,
                             self.impl_lines[-1] if self.impl_lines else None, 'one well-formed reply')
                continue
            if not isinstance(w, (message.MethodReturnMessage, message.ErrorMessage)):
                self.problem('non-reply-sent', 'the dispatcher sent a %s while handling a call' % type(w).__name__, cr)
                continue
            if w.reply_serial != cr.serial:
                self.problem('reply-wrong-serial', 'REPLY_SERIAL %r on the wire for call serial %r' % (w.reply_serial, cr.serial),
                             cr, w.reply_serial, cr.serial)
            if w.destination != cr.sender:
                self.problem('reply-wrong-destination', 'DESTINATION %r on the wire for call sender %r'
                             % (w.destination, cr.sender), cr, w.destination, cr.sender)

    def check_after_call(self, cr):
        from txdbus import message
        events = cr.events
        exp = cr.exp
        replies = self.replies_of(events, cr.h)
        invs = [e for e in events if e[0] == 'inv']
        desc = 'call %s.%s on %s (sig %r, expectReply=%s)' % (cr.op['iface'], cr.op['member'], cr.op['path'],
                                                             cr.op['sig'], cr.expect_reply)
        self.check_addressing(cr, events)
        if len(replies) > 1:
            self.problem('duplicate-reply', '%d replies to one %s' % (len(replies), desc), cr, len(replies), '<= 1')
        # ---- who runs
        if exp['v'] in ('run', 'ambiguous'):
            if len(invs) == 0 and exp['v'] == 'run':
                self.problem('implementation-not-run', 'the bound implementation did not run for ' + desc, cr,
                             self.impl_lines[-1], 'inv %s' % exp['fid'])
            elif len(invs) > 1:
                self.problem('implementation-run-twice', 'user code ran %d times for %s' % (len(invs), desc), cr)
            elif len(invs) == 1:
                _, fid, args, caller, inst = invs[0]
                want_inst = self.built.exp[cr.h].get(cr.op['path'])
                if inst is not None and want_inst is not None and inst is not want_inst:
                    where = [(h, p) for h in (0, 1) for p, o in self.built.exp[h].items() if o is inst]
                    self.problem('wrong-instance-run', 'the implementation ran on ANOTHER object than the one exported at the '
                                 'addressed path %s of this handler (it ran on the object at %s)'
                                 % (cr.op['path'], where or 'a path no longer exported'), cr, repr(where), cr.op['path'])
                allowed = [exp['fid']] if exp['v'] == 'run' else exp.get('fids')
                if allowed is not None and fid not in allowed:
                    self.problem('wrong-implementation-run', 'function %r ran; the candidates bound to the member are %r (%s)'
                                 % (fid, allowed, desc), cr, fid, allowed)
                if args != cr.decoded:
                    self.problem('wrong-arguments', 'implementation ran with %r, decoded arguments are %r'
                                 % (args, cr.decoded), cr, repr(args), repr(cr.decoded))
                f = self.func_of(fid)
                if f is not None and kwonly_caller(f):
                    # a keyword-only dbusCaller: whether that "asks for it" is not settled by the
                    # statement (the code's rule - named positional parameters - says no): either is accepted
                    cr.caller_rule_open = True
                    if caller is not _M and caller != cr.sender:
                        self.problem('wrong-caller', 'dbusCaller passed as %r, the sender is %r' % (caller, cr.sender), cr)
                elif f is not None:
                    want_caller = cr.sender if wants_caller(f) else _M
                    if caller is not want_caller and caller != want_caller:
                        self.problem('wrong-caller', 'dbusCaller passed as %r, expected %r'
                                     % ('<not passed>' if caller is _M else caller,
                                        '<not passed>' if want_caller is _M else want_caller), cr)
        else:
            if invs:
                self.problem('user-code-ran-unexpectedly', 'user code ran (%r) although the verdict is %s for %s'
                             % ([e[1] for e in invs], exp['v'], desc), cr, self.impl_lines[-1], exp['v'])
        # ---- lookup failures
        if exp['v'] in LOOKUP_ERRORS and replies:
            r = replies[0]
            if not isinstance(r, message.ErrorMessage) or r.error_name != LOOKUP_ERRORS[exp['v']]:
                self.problem('wrong-lookup-error', 'expected %s, got %s for %s'
                             % (LOOKUP_ERRORS[exp['v']], getattr(r, 'error_name', type(r).__name__), desc), cr,
                             getattr(r, 'error_name', type(r).__name__), LOOKUP_ERRORS[exp['v']])
        # ---- number of replies now
        dispatched = exp['v'] in ('run', 'ambiguous') and len(invs) >= 1
        if not cr.expect_reply:
            if dispatched and replies:
                self.problem('reply-to-noreply-call', 'a call flagged NO_REPLY_EXPECTED was dispatched to its '
                             'implementation and answered (%s)' % desc, cr, self.impl_lines[-1], 'no reply')
            return
        awaiting = dispatched and cr.returned_deferred
        if awaiting:
            if replies:
                self.problem('reply-before-deferred-fired', 'a reply was sent although the returned Deferred has not fired', cr)
            return
        if len(replies) == 0 and getattr(cr, 'raised', False):
            return          # reported as dispatcher-raised-no-reply
        if len(replies) == 0 and any(e[0] == 'sent' and isinstance(e[2], Exception) for e in events):
            return          # reported as reply-unparseable
        if len(replies) == 0:
            oc = cr.outcome
            if dispatched and oc['kind'] in EXC_KINDS and bad_text_key(oc['exc']):
                self.problem(bad_text_key(oc['exc']), 'the method raised an exception whose text is not a valid '
                             'DBus string (NUL / lone surrogate): the error reply could not be marshalled and no reply '
                             'at all was sent to a call that expects one', cr,
                             self.impl_lines[-1], 'exactly one reply')
            else:
                self.problem('missing-reply', 'no reply to %s (verdict %s, outcome %s)'
                             % (desc, exp['v'], cr.outcome['kind']), cr, self.impl_lines[-1], 'exactly one reply')
            return
        if dispatched and 'sig_out' in exp:
            oc = cr.outcome
            if oc['kind'] in VALUE_KINDS:
                self.check_value_reply(cr, replies[0], oc['_value'])
            else:
                self.check_error_reply(cr, replies[0], oc['exc'])

    def check_after_resolve(self, cr, res, events):
        self.check_addressing(cr, events)
        replies_all = self.replies_of(cr.events, cr.h)
        replies_now = self.replies_of(events, cr.h)
        if len(replies_all) > 1:
            self.problem('duplicate-reply', '%d replies to one call (a Deferred result was answered again)'
                         % len(replies_all), cr, len(replies_all), '<= 1')
        if not cr.expect_reply:
            if replies_now:
                self.problem('reply-to-noreply-call', 'the Deferred of a NO_REPLY_EXPECTED call fired and a reply was sent', cr)
            return
        if cr.resolved is res:      # the first firing
            if len(replies_now) == 0 and any(e[0] == 'sent' and isinstance(e[2], Exception) for e in events):
                return      # reported as reply-unparseable
            if len(replies_now) == 0:
                if res['kind'] == 'fail' and bad_text_key(res['exc']):
                    self.problem(bad_text_key(res['exc']), 'the Deferred failed with an exception whose text is not '
                                 'a valid DBus string (NUL / lone surrogate): the error reply could not be marshalled and '
                                 'no reply at all was sent to a call that expects one', cr,
                                 self.impl_lines[-1], 'exactly one reply')
                else:
                    self.problem('missing-reply', 'the returned Deferred fired (%s) and no reply was sent' % res['kind'], cr,
                                 self.impl_lines[-1], 'exactly one reply')
                return
            if 'sig_out' not in cr.exp or cr.exp['v'] not in ('run', 'ambiguous'):
                return          # user code ran although it should not have (already reported), or the
                                # declared signature depends on a tie-break
            if res['kind'] == 'value':
                self.check_value_reply(cr, replies_now[0], res['_value'])
            else:
                self.check_error_reply(cr, replies_now[0], res['exc'])

    def check_value_reply(self, cr, reply, value):
        """A returned value is encoded under the declared return signature; a value that does not
        encode becomes exactly one error reply.  `reply` is the message as parsed from the wire;
        the expected body is the decoding of an independent encoding (any byte order is fine)."""
        from txdbus import message, marshal
        sig_out = cr.exp['sig_out']
        body = list(value) if is_seq(value) and n_complete_types(sig_out) != 1 else [value]
        try:
            if sig_out:
                raw = b''.join(marshal.marshal(sig_out, body)[1])
                want = marshal.unmarshal(sig_out, raw, 0, True)[1]
            else:
                want = None
            encodable = True
        except Exception:
            encodable = False
        cr.result_encodable = encodable
        if encodable:
            if not isinstance(reply, message.MethodReturnMessage):
                self.problem('encodable-result-not-returned', 'the result %r encodes under %r but the reply is %s %s'
                             % (value, sig_out, type(reply).__name__, getattr(reply, 'error_name', '')), cr)
            elif (reply.signature or '') != sig_out or (reply.body if sig_out else None) != want:
                self.problem('result-wrongly-encoded', 'result %r under declared signature %r: the reply on the wire has '
                             'signature %r and decodes to %r' % (value, sig_out, reply.signature, reply.body), cr,
                             repr(reply.body), repr(want))
        else:
            if not isinstance(reply, message.ErrorMessage):
                self.problem('unencodable-result-not-one-error', 'the result %r does not encode under %r and the reply is not '
                             'an error' % (value, sig_out), cr)

    def check_error_reply(self, cr, reply, exc):
        """dbusErrorName | org.txdbus.PythonException.<Class> | org.txdbus.InvalidErrorName, text as message
        (`reply` is the message as parsed from the wire)."""
        from txdbus import message
        if not isinstance(reply, message.ErrorMessage):
            self.problem('exception-not-error-reply', 'the method raised and the reply is a %s' % type(reply).__name__, cr)
            return
        n0 = name0_of(exc)
        want = n0 if dbus_error_name_ok(n0) else 'org.txdbus.InvalidErrorName'
        if want != 'org.txdbus.InvalidErrorName' and reply.error_name != want:
            self.problem('wrong-error-name', 'error reply named %r, expected %r' % (reply.error_name, want), cr,
                         reply.error_name, want)
        if want == 'org.txdbus.InvalidErrorName' and reply.error_name != want and not dbus_error_name_ok(reply.error_name):
            self.problem('wrong-error-name', 'error reply carries the invalid name %r' % (reply.error_name,), cr)
        text = exc['text']
        got = reply.body[0] if reply.body else None
        if '\x00' in text or has_surrogate(text):
            return          # the text itself cannot be a DBus string; only the reply and its name are demanded
        if reply.error_name == 'org.txdbus.InvalidErrorName':
            ok = isinstance(got, str) and got.endswith(text)
        else:
            ok = got == text
        if not ok:
            self.problem('wrong-error-text', 'error reply text %r, exception text %r' % (got, text), cr, got, text)

    def finish(self):
        """End of the history: every call that expects a reply has exactly one unless its Deferred never fired."""
        for cr in self.calls.values():
            replies = self.replies_of(cr.events, cr.h)
            if cr.expect_reply and cr.returned_deferred and cr.resolved is None and replies:
                self.problem('reply-before-deferred-fired', 'reply without a result', cr)


VALUE_KINDS = ('value', 'fired', 'coro-value')
EXC_KINDS = ('raise', 'failed', 'coro-raise')


def bad_text_key(exc):
    """Narrow key when the text `send_error` has to send is not a valid DBus string, else None.
    The text is the exception text, preceded by the rejected name when the error name is invalid."""
    n0 = name0_of(exc)
    parts = exc['text'] + ('' if dbus_error_name_ok(n0) else str(n0))
    if '\x00' in parts:
        return 'error-text-nul-no-reply'
    if has_surrogate(parts):
        return 'error-text-surrogate-no-reply'
    return None


def dbus_error_name_ok(n):
    """The DBus grammar of error names (spec text; C18 owns the validator): >= 2 elements separated by '.',
    each non-empty, [A-Za-z0-9_], not starting with a digit; at most 255 characters."""
    if not isinstance(n, str) or len(n) > 255 or '.' not in n:
        return False
    for el in n.split('.'):
        if el == '' or el[0].isdigit() and el[0] in '0123456789':
            return False
        if any(not (c.isascii() and (c.isalnum() or c == '_')) for c in el):
            return False
    return True


# ----------------------------------------------------------------------------- scenario generation
def gen_history(rng, decls, n_ops, deferred_bias=0.0, hostile=False, builtin_bias=0.10, export_rate=0.08):
    ops = []
    pending = []     # (op index, sig_out guess) of calls that may have returned an unfired Deferred
    probe = Built(decls)
    for _ in range(n_ops):
        k = len(ops)
        if pending and rng.random() < 0.35 + deferred_bias:
            t, so = rng.choice(pending)
            ops.append({'op': 'resolve', 'k': t, 'res': gen_resolution(rng, so)})
            if rng.random() < 0.8:
                pending = [p for p in pending if p[0] != t]
            continue
        if ops and rng.random() < 0.04:
            ops.append({'op': 'resolve', 'k': rng.randrange(0, k + 2), 'res': gen_resolution(rng, rng.choice(SIGS))})
            continue
        if rng.random() < export_rate:
            # the application exports / unexports between calls
            h = 1 if decls.get('two_handlers') and rng.random() < 0.4 else 0
            if probe.exp[h] and rng.random() < 0.55:
                path = rng.choice(sorted(probe.exp[h])) if rng.random() < 0.9 else rng.choice(PATHS)
                op = {'op': 'unexport', 'path': path}
                if h:
                    op['h'] = 1
                probe.unexport(path, h)
            else:
                exportable = [i for i, c in enumerate(decls['classes']) if c['bases'] != ['plain']]
                op = {'op': 'export', 'path': rng.choice(PATHS), 'cls': rng.choice(exportable)}
                if h:
                    op['h'] = 1
                if any('props' in c for c in decls['classes']):
                    op['pval'] = rng.choice(["'v'"] + BAD_PROP_VALUES)
                probe.export(op)
            ops.append(op)
            continue
        op = gen_call(rng, decls, builtin_bias)
        exp = expected_of(probe, op)
        so = exp.get('sig_out', rng.choice(SIGS))
        op['outcome'] = gen_outcome(rng, so, hostile=hostile)
        if rng.random() < deferred_bias:
            op['outcome'] = {'kind': 'deferred'}
        if op['outcome']['kind'] == 'deferred':
            pending.append((k, so))
        ops.append(op)
    return ops


def gen_scenario(rng, n_ops=6, deferred_bias=0.0, hostile=False, rich=False, props=None, builtin_bias=0.10):
    decls = gen_decls(rng, rich, props)
    return {'decls': decls, 'ops': gen_history(rng, decls, n_ops, deferred_bias, hostile, builtin_bias)}


def gen_unexport_deferred(rng):
    """Objects that go while a call is outstanding: call (its method returns an unfired Deferred) ->
    `unexportObject` of the call's path -> [another call to that path: UnknownObject] -> the Deferred
    fires (value / failure) -> [the path is exported again, maybe with another class] -> [it fires again].
    Returns (scenario, number of Deferreds fired after their object was unexported)."""
    decls = gen_decls(rng)
    probe = Built(decls)
    exportable = [i for i, c in enumerate(decls['classes']) if c['bases'] != ['plain']]
    ops, fired_after = [], 0
    for _ in range(rng.randrange(1, 4)):
        op = None
        for _try in range(12):
            cand = gen_call(rng, decls, builtin_bias=0.0)
            if cand['path'] in probe.exported and expected_of(probe, cand)['v'] in ('run', 'ambiguous'):
                op = cand
                break
        if op is None:
            op = gen_call(rng, decls)
        exp = expected_of(probe, op)
        so = exp.get('sig_out', rng.choice(SIGS))
        op['outcome'] = {'kind': 'deferred'}
        if rng.random() < 0.8:
            op['expectReply'] = True
        k = len(ops)
        ops.append(op)
        dispatched = exp['v'] in ('run', 'ambiguous')
        if rng.random() < 0.25:
            # an unrelated export in between
            e = {'op': 'export', 'path': rng.choice(PATHS), 'cls': rng.choice(exportable)}
            probe.export(e)
            ops.append(e)
        gone = op['path'] in probe.exported
        ops.append({'op': 'unexport', 'path': op['path']})
        probe.unexport(op['path'])
        if rng.random() < 0.5:
            again = dict(op, serial=rng.randrange(1, 2 ** 32), outcome=gen_outcome(rng, so))
            ops.append(again)
        ops.append({'op': 'resolve', 'k': k, 'res': gen_resolution(rng, so)})
        if dispatched and gone:
            fired_after += 1
        if rng.random() < 0.5:
            e = {'op': 'export', 'path': op['path'], 'cls': rng.choice(exportable)}
            probe.export(e)
            ops.append(e)
            if rng.random() < 0.6:
                again = gen_call(rng, decls)
                again['path'] = op['path']
                again['outcome'] = gen_outcome(rng, expected_of(probe, again).get('sig_out', rng.choice(SIGS)))
                ops.append(again)
        if rng.random() < 0.3:
            ops.append({'op': 'resolve', 'k': k, 'res': gen_resolution(rng, so)})      # fires twice: nothing more is sent
    return {'decls': decls, 'ops': ops}, fired_after


def gen_shared_base(rng):
    """A family of classes sharing a base class, used one after the other IN ONE PROCESS (the per-class caches of the
    library live on the classes and persist across the exports of a scenario).  The base declares a DBusProperty whose
    interface is left open (`DBusProperty('p')`), before or after its methods in the class body, and implements the
    members of org.a (decorator style mostly).  One subclass is MISDECLARED: none of its interfaces lists `p`, so
    creating / exporting an object of it raises (AttributeError from the library).  Its siblings are declared
    correctly.  Histories: the misdeclared class is tried first, in between or not at all; then the good siblings are
    exported and called - every first use of a class must be right whatever was tried before."""
    n_m = rng.randrange(1, 4)
    ms = [[m, rng.choice(SIGS), rng.choice(SIGS)] for m in rng.sample(MEMBERS, n_m)]
    readable = rng.random() < 0.6
    ifaces = [{'name': 'org.a', 'methods': ms},
              {'name': PROP_IFACE, 'methods': [], 'props': [['p', 's', 'rw' if readable else 'w']]}]
    if rng.random() < 0.4:
        ifaces.append({'name': 'org.b', 'methods': [[rng.choice(MEMBERS), rng.choice(SIGS), rng.choice(SIGS)]]})
    fid = [0]

    def impls(idxs, share=0.9):
        attrs, used = [], set()
        for j in idxs:
            for m in ifaces[j]['methods']:
                if rng.random() > share:
                    continue
                if ifaces[j]['name'] == '':
                    # several functions for the member, decorated for different (other) interfaces
                    for tgt in rng.sample([PROP_IFACE, 'org.b', 'org.x', 'org.x'], rng.randrange(1, 4)):
                        fid[0] += 1
                        attrs.append({'name': 'impl_%s_%d' % (m[0], fid[0]), 'fid': fid[0], 'deco': [tgt, m[0]],
                                      'wants': rng.random() < 0.4})
                    continue
                if rng.random() < 0.75:
                    name, deco = 'impl_%s_%d' % (m[0], j), [ifaces[j]['name'], m[0]]
                else:
                    name, deco = 'dbus_' + m[0], None
                if name in used:
                    continue
                used.add(name)
                fid[0] += 1
                attrs.append({'name': name, 'fid': fid[0], 'deco': deco, 'wants': rng.random() < 0.4})
        return attrs
    with_b = list(range(2, len(ifaces)))
    nameless = rng.random() < 0.3
    if nameless:
        # org.a loses its name: its members can only be reached by calls without interface, and no function can be
        # decorated for it - the functions are decorated for the property's interface and for others, so the ORDER of
        # the class body (property before / after / between the functions) decides which of them serves the member
        ifaces[0]['name'] = ''
    base = {'bases': ['DBusObject'], 'ifaces': None if rng.random() < 0.75 else [0], 'attrs': impls([0] + with_b),
            'props': [{'name': 'p', 'iface': None}], 'props_first': rng.random() < 0.7,      # (props_at set below)
            # a write-only property is never read when the object is announced: it need not be assigned
            'assign_in_init': readable or rng.random() < 0.5}
    if rng.random() < 0.3:
        base['props_at'] = rng.randrange(0, len(base['attrs']) + 1)
    bad = {'bases': [0], 'ifaces': [0] + with_b, 'attrs': impls(with_b, 0.3)}
    good = {'bases': [0], 'ifaces': rng.sample([0, 1] + with_b, 2 + len(with_b)), 'attrs': impls(with_b, 0.3)}
    good2 = {'bases': [0], 'ifaces': [1, 0], 'attrs': []}
    classes = [base, bad, good, good2]
    decls = {'ifaces': ifaces, 'classes': classes, 'objects': []}
    probe = Built(decls)
    ops = []

    def export(cls, path, h=0):
        op = {'op': 'export', 'path': path, 'cls': cls}
        if h:
            op['h'] = 1
        probe.export(op)
        ops.append(op)

    def calls(path, n, h=0):
        for _ in range(n):
            j = rng.choice([0] * 3 + with_b)
            m = rng.choice(ifaces[j]['methods'])
            iface, member, sig_in = ifaces[j]['name'], m[0], m[1]
            if rng.random() < 0.2 or iface == '':
                iface = None
            if rng.random() < 0.08:
                member = rng.choice(MEMBERS)
            if rng.random() < 0.08:
                sig_in = rng.choice(SIGS)
            op = {'op': 'call', 'path': path, 'iface': iface, 'member': member,
                  'sig': sig_in if sig_in != '' else rng.choice([None, '']), 'body': repr(gen_value(rng, sig_in)),
                  'sender': rng.choice([':1.7', ':1.42', None]), 'serial': rng.randrange(1, 2 ** 32),
                  'expectReply': rng.random() < 0.8, 'autoStart': True, 'flag4': False}
            if h:
                op['h'] = 1
            exp = expected_of(probe, op)
            op['outcome'] = gen_outcome(rng, exp.get('sig_out', rng.choice(SIGS)), deferred_ok=False)
            ops.append(op)
    order = rng.choice(['bad-first', 'bad-first', 'bad-first', 'good-first', 'no-bad'])
    if order == 'bad-first':
        export(1, rng.choice(['/a', '/c']))
    export(2, '/a/b')
    calls('/a/b', rng.randrange(1, 4))
    if order == 'good-first' or rng.random() < 0.3:
        export(1, rng.choice(['/a', '/a/b']))       # a failed export over an exported path leaves it alone
        calls('/a/b', rng.randrange(1, 3))
    if rng.random() < 0.6:
        h = 1 if rng.random() < 0.4 else 0       # the other good sibling, maybe on a second handler of the process
        path = rng.choice(['/c/d/e', '/a/b']) if h else '/c/d/e'
        export(3, path, h)
        calls(path, rng.randrange(1, 3), h)
        calls('/a/b', 1)
    if rng.random() < 0.3:
        ops.append({'op': 'unexport', 'path': '/a/b'})
        probe.unexport('/a/b')
        calls('/a/b', 1)
    return {'decls': decls, 'ops': ops}


GRID_DECLS = {
    'ifaces': [
        {'name': 'org.a', 'methods': [['one', 's', 's'], ['two', '', 'as'], ['x1', 'i', '']]},
        {'name': 'org.b', 'methods': [['one', 'ss', 'ss'], ['three', '', 'i']]},
        {'name': 'org.a', 'methods': [['three', 's', 's']]},
        {'name': 'com.c', 'methods': [['Ping', '', 's'], ['two', 'i', 'i']]},
    ],
    'classes': [
        {'bases': ['DBusObject'], 'ifaces': [0, 1],
         'attrs': [{'name': 'dbus_one', 'fid': 1, 'deco': None, 'wants': False},
                   {'name': 'impl_two', 'fid': 2, 'deco': ['org.a', 'two'], 'wants': True, 'arity': 0},
                   {'name': 'impl_two_b', 'fid': 3, 'deco': ['org.a', 'two'], 'wants': False},
                   {'name': 'dbus_three', 'fid': 4, 'deco': ['org.a', 'three'], 'wants': False},
                   {'name': 'handler', 'fid': 5, 'deco': ['org.b', 'three'], 'wants': True, 'shape': 'kwargs'}]},
        {'bases': [0], 'ifaces': [3, 2], 'truth': 'len0',
         'attrs': [{'name': 'handler', 'fid': 6, 'deco': None, 'wants': False},
                   {'name': 'impl_one', 'fid': 7, 'deco': ['org.b', 'one'], 'wants': True, 'arity': 2},
                   {'name': 'dbus_Ping', 'fid': 8, 'deco': None, 'wants': True, 'shape': 'kwonly'},
                   {'name': 'impl_c_two', 'fid': 9, 'deco': ['com.c', 'two'], 'wants': False}]},
    ],
    'objects': [{'path': '/a', 'cls': 1}, {'path': '/a/b', 'cls': 0}, {'path': '/c/d/e', 'cls': 1}],
}


def grid_scenarios(rng, limit):
    """Bounded enumeration of lookups against GRID_DECLS: path x interface x member x signature x all
    eight values of the low flag bits."""
    paths = ['/a', '/a/b', '/c/d/e', '/c', '/zz', '/']
    ifaces = [None, 'org.a', 'org.b', 'com.c', 'org.zzz'] + [b[0] for b in BUILTINS]
    members = ['one', 'two', 'three', 'x1', 'Ping', 'nosuch', 'Introspect', 'GetManagedObjects']
    sigs = [None, '', 's', 'ss', 'i']
    combos = [(p, i, m, s, fl) for p in paths for i in ifaces for m in members for s in sigs for fl in range(8)]
    rng.shuffle(combos)
    combos = combos[:limit] if limit is not None else combos
    ops = []
    for (p, i, m, s, fl) in combos:
        body = gen_value(rng, s or '')
        op = {'op': 'call', 'path': p, 'iface': i, 'member': m, 'sig': s, 'body': repr(body),
              'sender': ':1.9', 'serial': 1 + len(ops) % 50000,
              'expectReply': not (fl & 1), 'autoStart': not (fl & 2), 'flag4': bool(fl & 4)}
        ops.append(op)
    probe = Built(GRID_DECLS)
    out = []
    for j in range(0, len(ops), 40):
        chunk = ops[j:j + 40]
        for op in chunk:
            exp = expected_of(probe, op)
            op['outcome'] = gen_outcome(rng, exp.get('sig_out', ''), deferred_ok=False)
        out.append({'decls': GRID_DECLS, 'ops': chunk})
    return out, len(combos)


# ----------------------------------------------------------------------------- reporting
def decl_digest(decls):
    import hashlib
    return hashlib.sha1(json.dumps(decls, sort_keys=True).encode()).hexdigest()[:10]


def reduce_spec(spec, k):
    """The history cut down to operation k (a call), the export / unexport operations before it
    and the first resolution of its Deferred."""
    ops = spec['ops']
    if ops[k]['op'] == 'resolve':
        k = ops[k]['k']
    if not (0 <= k < len(ops)) or ops[k]['op'] != 'call':
        return None
    new = [op for op in ops[:k] if op['op'] in ('export', 'unexport')]
    nk = len(new)
    new.append(ops[k])
    for op in ops[k + 1:]:
        if op['op'] == 'resolve' and op['k'] == k:
            new.append({'op': 'resolve', 'k': nk, 'res': op['res']})
            break
    return {'decls': spec['decls'], 'ops': new}


def judge(ctx, stream, sc, model_out=None):
    """Report one scenario that was run on the real code (`sc`); `model_out` are the driver's
    output lines for `sc.model_lines` (or None when the model is not consulted)."""
    spec = sc.spec
    ctx.impl_trace(len(spec['ops']))
    dig = decl_digest(spec['decls'])
    for k, op in enumerate(spec['ops']):
        cr = sc.calls.get(k)
        nontrivial = op['op'] == 'resolve' or (cr is not None and cr.exp['v'] not in ('builtin',))
        ctx.case(stream, sample={'decls': dig, 'op': op}, nontrivial=nontrivial)
        if op['op'] == 'call':
            exp = cr.exp
            ctx.stat('verdict=' + exp['v'])
            if exp['v'] == 'ambiguous':
                ctx.stat('ambiguous: ' + exp['why'])
            ran = any(e[0] == 'inv' for e in cr.events)
            ctx.stat(('outcome=' + op['outcome']['kind']) if ran else 'outcome=(not run)')
            ctx.stat('flags=%d' % ((0 if op['expectReply'] else 1) | (0 if op.get('autoStart', True) else 2)
                                   | (4 if op.get('flag4') else 0)))
            ctx.stat('iface=' + ('none' if op['iface'] is None else 'given'))
            ctx.stat('handler=%d' % cr.h)
            ctx.stat('sender=' + ('none' if op['sender'] is None else 'unique' if op['sender'].startswith(':') else 'well-known'))
            if exp['v'] == 'run':
                ctx.stat('binding=' + exp['style'])
                ctx.stat('asks-for-caller=%s' % exp['wants'])
                f = sc.func_of(exp['fid'])
                if f is not None:
                    code = f.__code__
                    ctx.stat('implementation signature: %s%s%s' % (
                        'dbusCaller last named positional' if exp['wants'] else
                        'dbusCaller keyword-only' if 'dbusCaller' in code.co_varnames[code.co_argcount:code.co_argcount + code.co_kwonlyargcount]
                        else 'dbusCaller not last' if 'dbusCaller' in code.co_varnames[:code.co_argcount] else 'no dbusCaller',
                        ', *args' if code.co_flags & 0x04 else '', ', **kwargs' if code.co_flags & 0x08 else ''))
            if ran:
                oc = op['outcome']
                if oc['kind'] in VALUE_KINDS:
                    v = parse_value(oc['value'])
                    ctx.stat('result=' + ('none' if v is None else 'list' if isinstance(v, list) else
                                          'tuple' if isinstance(v, tuple) else 'single'))
                    if hasattr(cr, 'result_encodable'):
                        ctx.stat('result-encodable=%s' % cr.result_encodable)
                elif oc['kind'] in EXC_KINDS:
                    e = oc['exc']
                    n0 = name0_of(e)
                    ctx.stat('error-name=' + ('class-name' if not e.get('name_attr') or e.get('name') is None else
                                              'dbusErrorName/' + e.get('name_level', 'instance'))
                             + ('' if dbus_error_name_ok(n0) else ' (invalid)'))
                    ctx.stat('error-text=' + ('nul' if '\x00' in e['text'] else 'surrogate' if has_surrogate(e['text'])
                                              else 'empty' if e['text'] == '' else 'plain'))
        else:
            ctx.stat('op=' + op['op'])
    if any(c.get('bases') == ['plain'] for c in spec['decls']['classes']):
        ctx.stat('scenario: mixin (multiple inheritance)')
    if spec['decls'].get('two_handlers'):
        ctx.stat('scenario: two handlers in one process')
    clss = [o['cls'] for o in spec['decls']['objects']] + [o['cls'] for o in spec['ops'] if o['op'] == 'export']
    if len(clss) != len(set(clss)):
        ctx.stat('scenario: several instances of one class exported')
    for tv in sorted({c['truth'] for c in spec['decls']['classes'] if c.get('truth')}):
        ctx.stat('scenario: exported class with truth value ' + tv)
    for sh in sorted({a.get('shape') for c in spec['decls']['classes'] for a in c['attrs'] if a.get('shape')}):
        ctx.stat('scenario: method shape ' + sh)
    if model_out is not None:
        outs = model_out[sc.n_prefix:]
        for k, (m, i) in enumerate(zip(outs, sc.impl_lines)):
            if m != i:
                op = spec['ops'][k]
                tk = op['k'] if op['op'] == 'resolve' else k
                tcr = sc.calls.get(tk)
                if tcr is not None and getattr(tcr, 'caller_rule_open', False):
                    ctx.stat('caller rule for a keyword-only dbusCaller differs from the model')
                    continue
                if tcr is not None and tcr.exp['v'] == 'ambiguous' and tcr.exp['why'] != NAMELESS:
                    # the statement leaves the tie-break open; the model mirrors the code's present
                    # choice, another choice is not a broken obligation
                    ctx.stat('tie-break differs from the model (%s)' % tcr.exp['why'])
                    continue
                red = reduce_spec(spec, k)
                ctx.disagree(stream, {'scenario': red if red is not None else spec, 'op_index': k,
                                      'model_line': sc.model_lines[sc.n_prefix + k]}, m, i)
                break
    seen = set()
    for (key, what, k, observed, expected) in sc.problems:
        if key in seen:
            continue
        seen.add(key)
        inp = spec
        red = reduce_spec(spec, k)
        if red is not None:
            try:
                sc2 = Scenario(red)
                sc2.run()
                for p in sc2.problems:
                    if p[0] == key:
                        inp, what, observed, expected = red, p[1], p[3], p[4]
                        break
            except Exception:
                pass
        ctx.violation(key, what, inp={'scenario': inp}, observed=observed, expected=expected)


def run_batch(ctx, stream, specs, with_model=True):
    """Scenarios -> real code -> one driver invocation -> judgements."""
    scs, lines, spans = [], [], []
    for spec in specs:
        sc = Scenario(spec)
        sc.run()
        spans.append((len(lines), len(lines) + len(sc.model_lines)))
        lines.extend(sc.model_lines)
        scs.append(sc)
    if with_model and not all(sc.model_ok for sc in scs):
        raise ValueError('a scenario of stream %s is not representable on the model line protocol' % stream)
    out = ctx.model(lines) if with_model else None
    for sc, (a, b) in zip(scs, spans):
        judge(ctx, stream, sc, model_out=None if out is None else out[a:b])
    ctx.stat('GetManagedObjects reply could not be built (exercised)', sum(sc.managed_failures for sc in scs))
    return sum(sc.managed_failures for sc in scs)


def quiet_twisted():
    """Unhandled-failure reports of Deferreds of no-reply calls go to the Twisted log; keep it silent."""
    try:
        from twisted.logger import globalLogBeginner
        globalLogBeginner.beginLoggingTo([lambda e: None], redirectStandardIO=False, discardBuffer=True)
    except Exception:
        pass


def run(ctx):
    quiet_twisted()
    rng = ctx.rng
    del LOC_NOTES[:]
    try:
        _run(ctx, rng)
    finally:
        for n in LOC_NOTES:
            ctx.note('locator: ' + n)


def _run(ctx, rng):
    # corpus first
    for name, data in ctx.corpus():
        pc = data.get('props_case') or data.get('input', {}).get('props_case')
        if pc is not None:
            PR.run_stream(ctx, 'dispatch-properties', [pc])
            ctx.stat('corpus')
            continue
        spec = data.get('scenario') or data.get('input', {}).get('scenario')
        if spec is None:
            continue
        run_batch(ctx, data.get('stream', 'dispatch-random'), [spec], with_model=not data.get('oracle_only', False))
        ctx.stat('corpus')
    # random scenarios
    n = ctx.scale(quick=800, thorough=12000)
    run_batch(ctx, 'dispatch-random', [gen_scenario(rng, n_ops=rng.randrange(3, 9)) for _ in range(n)])
    # lookup grid (complete in the thorough tier)
    limit = None if (ctx.tier == 'thorough' or ctx.widen) else 1200
    specs, ncomb = grid_scenarios(rng, limit)
    run_batch(ctx, 'dispatch-lookup-grid', specs)
    ctx.stat('grid-combinations', ncomb)
    # Deferred-heavy histories
    n = ctx.scale(quick=280, thorough=5000)
    run_batch(ctx, 'dispatch-deferred',
              [gen_scenario(rng, n_ops=rng.randrange(4, 14), deferred_bias=0.35) for _ in range(n)])
    # calls the handler answers itself, on trees whose objects carry a property (some with a stored
    # value that cannot be marshalled)
    n = ctx.scale(quick=120, thorough=2000)
    nfail = run_batch(ctx, 'dispatch-builtin',
                      [gen_scenario(rng, n_ops=rng.randrange(3, 8), props=True, builtin_bias=0.7) for _ in range(n)])
    if not nfail:
        # the stream exists to exercise the failure path of the built-in handler (repair C10-02); if the
        # generator no longer reaches it, say so loudly instead of passing with the coverage gone
        raise RuntimeError('stream dispatch-builtin did not produce a single GetManagedObjects call whose reply '
                           'cannot be built: the property values meant to be unmarshallable are not stored any more')
    # objects unexported while a call is outstanding: the Deferred fires afterwards
    n = ctx.scale(quick=150, thorough=1800)
    pairs = [gen_unexport_deferred(rng) for _ in range(n)]
    run_batch(ctx, 'dispatch-unexport-deferred', [p[0] for p in pairs])
    ctx.stat('Deferred fired after its object was unexported (exercised)', sum(p[1] for p in pairs))
    if not sum(p[1] for p in pairs):
        raise RuntimeError('stream dispatch-unexport-deferred did not fire a single Deferred after its object was unexported')
    # calls to org.freedesktop.DBus.Properties and the built-in interfaces on objects with properties, in histories
    # with export / unexport / assignment: the dispatcher composed with C17's model (harness/c10_props.py)
    n = ctx.scale(quick=240, thorough=2800)
    ncalls = PR.run_stream(ctx, 'dispatch-properties', [PR.gen_case(rng) for _ in range(n)])
    if not ncalls:
        raise RuntimeError('stream dispatch-properties made no call')
    # classes that share a base class, one of them misdeclared (its export raises), in one process: the library's
    # per-class caches persist across the exports of a scenario - every first use of a class must be right
    n = ctx.scale(quick=150, thorough=1800)
    specs = [gen_shared_base(rng) for _ in range(n)]
    run_batch(ctx, 'dispatch-shared-base', specs)
    nbad = sum(1 for sp in specs if sp['ops'] and sp['ops'][0]['op'] == 'export' and sp['ops'][0]['cls'] == 1)
    ctx.stat('a misdeclared sibling class was tried before the good one (exercised)', nbad)
    if not nbad:
        raise RuntimeError('stream dispatch-shared-base tried no misdeclared class before a good sibling')
    # oracle only: exception texts with lone surrogates (not representable as Lean `Char`)
    n = ctx.scale(quick=150, thorough=1200)
    run_batch(ctx, 'oracle-hostile-text', [gen_scenario(rng, n_ops=4, hostile=True) for _ in range(n)],
              with_model=False)


def replay(ctx, data):
    quiet_twisted()
    inp = data.get('input') or {}
    pc = inp.get('props_case') or data.get('props_case')
    if pc is not None:
        PR.run_stream(ctx, 'replay', [pc])
        return
    spec = inp.get('scenario') or data.get('scenario')
    if spec is None:
        ctx.note('replay file carries no scenario')
        return
    oracle_only = any(has_surrogate(json.dumps(op, ensure_ascii=False)) for op in spec['ops'])
    run_batch(ctx, 'replay', [spec], with_model=not oracle_only)
