"""Python side of the one-line prefix syntax for Python values (Lean side: lean/Driver/Val.lean,
model datatype Txdbus.PyVal in lean/TxdbusModel/Wire/PyVal.lean).  Shared by the harnesses that
exchange Python values with a Lean driver (C01, C02, C03, C05, C10, C19).

Syntax (tokens separated by single spaces):

  N                             None
  T | F                         True | False
  i <dec>                       plain int (decimal, optional leading '-', unbounded)
  Iy|Ib|In|Iq|Ii|Iu|Ix|It <dec> Byte|Boolean|Int16|UInt16|Int32|UInt32|Int64|UInt64 wrapper instance
  d <16 hex digits>             float: struct.pack('>d', x).hex()  (NaN payloads, -0.0 survive)
  s <strhex>                    plain str; strhex = 6 hex digits per code point, "-" for ''
  Sg <strhex> | So <strhex>     Signature | ObjectPath wrapper instance
  B <byteshex>                  bytearray; 2 hex digits per byte, "-" for empty
  L <n> v1 .. vn                list
  U <n> v1 .. vn                tuple
  D <n> k1 v1 .. kn vn          dict, items in iteration order
  O <cls> <sig> <n> f1 .. fn    object of user class number <cls> with `dbusOrder` (f1..fn = the attribute
                                values in dbusOrder order); <sig> = strhex of its `dbusSignature` or "~"
  X <cls>                       unsupported object of class number <cls>:
                                0 bytes, 1 ellipsis (the value `...`), 2 frozenset, 3 complex, 4 range, >=5 a fresh
                                class each (never `object`: every value is an instance of it)

API
  to_line(v)      real Python value -> line text                 (ValueError for values outside the syntax)
  from_line(s)    line text -> real Python value (wrapper classes from the txdbus currently imported,
                  objects as instances of obj_class(cls))
  parse(tokens)   -> (value, remaining tokens)                   (the token-level twin of Driver.parseVal)
  to_json(v)      real Python value -> JSON-able tree, class-exact (for reports and for comparing
                  decoded values: tuples/lists, wrappers/plain and bool/int are kept apart, dict
                  order kept, floats by bit pattern)
  line_to_json(s) = to_json(from_line(s))
  canon_line(s)   whitespace-normalised line (two lines denote the same value iff their canon_lines
                  are equal: the syntax has one spelling per value)
  str_hex / hex_str / bytes_hex / hex_bytes : the hex helpers of Driver/Common.lean
"""
import struct

_INT_TAGS = [('Iy', 'Byte'), ('Ib', 'Boolean'), ('In', 'Int16'), ('Iq', 'UInt16'),
             ('Ii', 'Int32'), ('Iu', 'UInt32'), ('Ix', 'Int64'), ('It', 'UInt64')]
_STR_TAGS = [('Sg', 'Signature'), ('So', 'ObjectPath')]


def _m():
    from txdbus import marshal
    return marshal


# ------------------------------------------------------------------ hex helpers
def str_hex(s):
    return ''.join('%06x' % ord(c) for c in s) or '-'


def hex_str(h):
    if h == '-':
        return ''
    if len(h) % 6:
        raise ValueError('bad strhex %r' % (h,))
    return ''.join(chr(int(h[i:i + 6], 16)) for i in range(0, len(h), 6))


def bytes_hex(b):
    return bytes(b).hex() or '-'


def hex_bytes(h):
    return b'' if h == '-' else bytes.fromhex(h)


def float_hex(x):
    return struct.pack('>d', x).hex()


def hex_float(h):
    if len(h) != 16:
        raise ValueError('bad float pattern %r' % (h,))
    return struct.unpack('>d', bytes.fromhex(h))[0]


# ------------------------------------------------------------------ classes for O and X
_OBJ_CLASSES = {}
_OBJ_NUMBER = {}


def obj_class(n):
    """The user class number n (instances get `dbusOrder`, optional `dbusSignature`, fields f0..)."""
    if n not in _OBJ_CLASSES:
        k = type('DbusObj%d' % n, (object,), {'__repr__': lambda self: '<%s %r>' % (
            type(self).__name__, [getattr(self, a) for a in self.dbusOrder])})
        _OBJ_CLASSES[n] = k
        _OBJ_NUMBER[k] = n
    return _OBJ_CLASSES[n]


def make_obj(n, sig, fields):
    o = obj_class(n)()
    o.dbusOrder = ['f%d' % i for i in range(len(fields))]
    for a, f in zip(o.dbusOrder, fields):
        setattr(o, a, f)
    if sig is not None:
        o.dbusSignature = sig
    return o


def register_obj_class(klass, n):
    """Let instances of an existing class (with dbusOrder) print as `O n ...`."""
    _OBJ_CLASSES[n] = klass
    _OBJ_NUMBER[klass] = n


_OTHER_FIXED = [bytes, type(Ellipsis), frozenset, complex, range]
_OTHER_CLASSES = {}
_OTHER_NUMBER = {}


def other_class(n):
    if n < len(_OTHER_FIXED):
        return _OTHER_FIXED[n]
    if n not in _OTHER_CLASSES:
        k = type('Other%d' % n, (object,), {'__repr__': lambda self: '<%s>' % type(self).__name__})
        _OTHER_CLASSES[n] = k
        _OTHER_NUMBER[k] = n
    return _OTHER_CLASSES[n]


def make_other(n):
    k = other_class(n)
    if k is complex:
        return 1j
    if k is range:
        return range(0)
    if k is type(Ellipsis):
        return Ellipsis
    return k()


def _other_number(v):
    t = type(v)
    if t in _OTHER_FIXED:
        return _OTHER_FIXED.index(t)
    if t in _OTHER_NUMBER:
        return _OTHER_NUMBER[t]
    raise ValueError('value outside the PyVal syntax: %r' % (v,))


# ------------------------------------------------------------------ printing
def _tokens(v, out):
    m = _m()
    t = type(v)
    if v is None:
        out.append('N')
    elif t is bool:
        out.append('T' if v else 'F')
    elif t is int:
        out += ['i', '%d' % v]
    elif isinstance(v, int):
        for tag, name in _INT_TAGS:
            if t is getattr(m, name):
                out += [tag, '%d' % int(v)]
                return
        raise ValueError('int subclass outside the PyVal syntax: %r' % (t,))
    elif t is float:
        out += ['d', float_hex(v)]
    elif t is str:
        out += ['s', str_hex(v)]
    elif isinstance(v, str):
        for tag, name in _STR_TAGS:
            if t is getattr(m, name):
                out += [tag, str_hex(str(v))]
                return
        raise ValueError('str subclass outside the PyVal syntax: %r' % (t,))
    elif t is bytearray:
        out += ['B', bytes_hex(v)]
    elif t is list:
        out += ['L', '%d' % len(v)]
        for e in v:
            _tokens(e, out)
    elif t is tuple:
        out += ['U', '%d' % len(v)]
        for e in v:
            _tokens(e, out)
    elif t is dict:
        out += ['D', '%d' % len(v)]
        for k, e in v.items():
            _tokens(k, out)
            _tokens(e, out)
    elif hasattr(v, 'dbusOrder'):
        if t not in _OBJ_NUMBER:
            raise ValueError('unregistered class with dbusOrder: %r (register_obj_class)' % (t,))
        sig = getattr(v, 'dbusSignature', None)
        out += ['O', '%d' % _OBJ_NUMBER[t], '~' if sig is None else str_hex(sig), '%d' % len(v.dbusOrder)]
        for a in v.dbusOrder:
            _tokens(getattr(v, a), out)
    else:
        out += ['X', '%d' % _other_number(v)]


def to_line(v):
    out = []
    _tokens(v, out)
    return ' '.join(out)


# ------------------------------------------------------------------ parsing
def parse(toks, i=0):
    """Parse one value starting at toks[i]; returns (value, next index)."""
    m = _m()
    t = toks[i]
    i += 1
    if t == 'N':
        return None, i
    if t == 'T':
        return True, i
    if t == 'F':
        return False, i
    if t == 'i':
        return int(toks[i]), i + 1
    for tag, name in _INT_TAGS:
        if t == tag:
            return getattr(m, name)(int(toks[i])), i + 1
    if t == 'd':
        return hex_float(toks[i]), i + 1
    if t == 's':
        return hex_str(toks[i]), i + 1
    for tag, name in _STR_TAGS:
        if t == tag:
            return getattr(m, name)(hex_str(toks[i])), i + 1
    if t == 'B':
        return bytearray(hex_bytes(toks[i])), i + 1
    if t in ('L', 'U'):
        n = int(toks[i])
        i += 1
        xs = []
        for _ in range(n):
            x, i = parse(toks, i)
            xs.append(x)
        return (xs if t == 'L' else tuple(xs)), i
    if t == 'D':
        n = int(toks[i])
        i += 1
        d = {}
        for _ in range(n):
            k, i = parse(toks, i)
            v, i = parse(toks, i)
            d[k] = v
        return d, i
    if t == 'O':
        c = int(toks[i])
        sig = None if toks[i + 1] == '~' else hex_str(toks[i + 1])
        n = int(toks[i + 2])
        i += 3
        xs = []
        for _ in range(n):
            x, i = parse(toks, i)
            xs.append(x)
        return make_obj(c, sig, xs), i
    if t == 'X':
        return make_other(int(toks[i])), i + 1
    raise ValueError('bad token %r' % (t,))


def from_line(s):
    toks = s.split()
    v, i = parse(toks, 0)
    if i != len(toks):
        raise ValueError('trailing tokens in %r' % (s,))
    return v


def canon_line(s):
    return ' '.join(s.split())


# ------------------------------------------------------------------ JSON-able tree
def to_json(v):
    """Class-exact JSON-able tree of a value inside the syntax."""
    toks = to_line(v).split()
    tree, i = _tree(toks, 0)
    return tree


def _tree(toks, i):
    t = toks[i]
    i += 1
    if t in ('N', 'T', 'F'):
        return {'N': None, 'T': True, 'F': False}[t], i
    if t == 'i':
        return {'int': toks[i]}, i + 1
    if t[0] == 'I':
        return {dict(_INT_TAGS)[t]: toks[i]}, i + 1
    if t == 'd':
        return {'float': toks[i]}, i + 1
    if t == 's':
        return {'str': hex_str(toks[i])}, i + 1
    if t[0] == 'S':
        return {dict(_STR_TAGS)[t]: hex_str(toks[i])}, i + 1
    if t == 'B':
        return {'bytearray': toks[i]}, i + 1
    if t in ('L', 'U'):
        n = int(toks[i])
        i += 1
        xs = []
        for _ in range(n):
            x, i = _tree(toks, i)
            xs.append(x)
        return {('list' if t == 'L' else 'tuple'): xs}, i
    if t == 'D':
        n = int(toks[i])
        i += 1
        xs = []
        for _ in range(n):
            k, i = _tree(toks, i)
            x, i = _tree(toks, i)
            xs.append([k, x])
        return {'dict': xs}, i
    if t == 'O':
        c, sig, n = toks[i], toks[i + 1], int(toks[i + 2])
        i += 3
        xs = []
        for _ in range(n):
            x, i = _tree(toks, i)
            xs.append(x)
        return {'obj': int(c), 'sig': None if sig == '~' else hex_str(sig), 'fields': xs}, i
    if t == 'X':
        return {'other': int(toks[i])}, i + 1
    raise ValueError('bad token %r' % (t,))


def line_to_json(s):
    tree, i = _tree(s.split(), 0)
    return tree
