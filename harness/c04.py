"""C04 - message framing is independent of how the byte stream is split into reads.
Correspondence + oracle harness.

A *scenario* is one connection: a mode, the list of reads (the partition of one byte stream), and -
for the oracle - the messages that were sent; or (mode 'multi', stream `connections-interleaved`, state-leak round
2026-09-30) a HISTORY over several connections of one process: `conns` (one single-connection spec each) and
`events` = [op, connection, argument] with op open / read / fd / lose.

Every connection is made the way a reactor makes it (class `Conn`): `Class()`, the public `authenticator` hook,
`makeConnection(transport)`; after that only `dataReceived`, `fileDescriptorReceived`, `connectionLost` touch it.
The harness sets NO receiver state by hand (no `_authenticated = True`, no `_receivedFDs = [...]`).

  mode 'binary'       a BasicDBusProtocol subclass brought into binary mode by a handshake read of its own
                      (`BEGIN` + stub authenticator) that is not part of the scenario
  mode 'stub-client'  / 'stub-server': line mode with a scripted stub authenticator (outcomes c/s/f per line)
  mode 'real-client'  ClientAuthenticator on a non-UNIX transport (server lines REJECTED / OK <hex>)
  mode 'real-server'  BusProtocol + BusAuthenticator (ANONYMOUS); the transport always offers a stub socket

Observation of the implementation (canonical, compared with the Lean model = S3): the effects in
order (raw message delivered, line handed to the authenticator, loseConnection, exception) and the
final (_buffer, _authenticated - pinned by the test suite -, the cached length and the first-byte flag when they
are where we know them, transport.disconnecting).
For the real authenticators the outcome of every handled line (cont / success / failed) is recorded
through a wrapper and handed to the model as its authenticator script.

Oracle (implementation only = S4): whatever the partition, the messages delivered (parsed: type,
serial, flags, header fields, body; and raw bytes) are exactly the messages sent, in order.

Stream `parsed-after-framing` (extension 2026-09-30, reworked after review 3) ties the seam C04/C03: messages
built with the real constructors (70 %; 30 % re-serialised by the reference serializer, either byte order),
concatenated, cut (also inside the 16-byte fixed headers, at every byte for short streams), fed to the real
protocol whose FOUR hooks are four distinct recorders.  Compared with the COMPOSED Lean model `recvRun`
(Proto/Receive.lean: framing, then per frame C03's parseMessage model with C01's codec on `_receivedFDs`, the
slice `_receivedFDs[m.unix_fds:]`, the dispatch on the message type; an exception escapes dataReceived):
WHICH hook was called, what it was handed (type, serial, flags, otherFlags, the nine header attributes, the
body), the exception name when parseMessage raises and the state it leaves, the final `_receivedFDs`.
Oracle additions: every message reaches the hook of its type (`delivered-to-wrong-hook`, all streams), and - for
messages whose constructed object was kept - the hook argument equals what the SENDER constructed
(`delivered-differs-from-constructed`), not only parseMessage of the same bytes.
"""
import itertools
import struct

STREAMS = ['binary-cuts', 'binary-random', 'binary-coalesced', 'binary-malformed',
           'lines-scripted', 'handoff-real-client', 'handoff-real-server', 'handoff-cuts', 'handoff-bigtail', 'handoff-stub', 'binary-unparsable', 'limit-scaled', 'reentrant-delivery',
           'parsed-after-framing', 'connections-interleaved']
THEOREMS = ['binary_partition_independent', 'frames_of_messages', 'line_partition_independent',
            'handoff', 'loop_bounded', 'delivers_messages_sent', 'delivers_messages_sent_after_handshake',
            'model_control_flow_matches_source',
            'wellFormed_of_constructed', 'sent_wellFormed_and_parses', 'sent_wellFormed_and_parses_c01',
            'delivers_parsed_messages', 'delivers_parsed_messages_c01', 'receive_delivers_sent_c01',
            'delivers_parsed_messages_after_handshake', 'delivers_parsed_messages_after_handshake_c01',
            'dispatch_table_ok', 'recv_delivers_sent', 'recv_delivers_sent_c01',
            'recv_delivers_sent_after_handshake_c01', 'recv_delivers_calls_c01', 'recvRun_aborts_at_parse_error',
            'history_independent', 'interleaved_delivers_messages_sent',
            'interleaved_delivers_messages_sent_after_handshake']
TRUSTED_BASE = [
    'bytes.split / bytes.join / slicing / struct.unpack("I") mirrored by hand in Proto/Framing.lean '
    '(validated by the correspondence streams)',
    'the authenticator is an abstract parameter of the model; for the real authenticators the harness '
    'records the outcome of each handled line and passes it to the model as a script',
    'in the model the connections of a process share nothing BY CONSTRUCTION (`Conns.runHist` hands `step` the state of '
    'one connection); that the code keeps its framing state per instance is checked by the stream '
    'connections-interleaved (model command H on the whole history + the oracle per connection)',
    'big-endian test messages are produced by a reference serializer built on txdbus.marshal.marshal '
    '(DBusMessage._marshal encodes the body little-endian whatever `endian` says - a C03 matter)',
]
ASSUMPTIONS = [
    'Twisted never delivers an empty read to a server before the first byte was seen (the code indexes data[0])',
    'the reactor turns an exception escaping dataReceived into a lost connection (no further reads)',
    'rawDBusMessageReceived does not re-enter dataReceived IN THE MODEL; the implementation is checked under '
    'nested delivery and raising handlers by the implementation-only stream reentrant-delivery',
    'a message that fails to PARSE makes rawDBusMessageReceived raise inside the delivery loop: [unparsable, good] '
    'in one read leaves `good` buffered (delivered by the next read), as two reads `good` is delivered at once - '
    'partition-dependent, but only after an exception escaped dataReceived, i.e. on a connection the reactor drops; '
    'the oracle judges such streams up to and including the unparsable message (stream binary-unparsable)',
    'the composed theorems (wellFormed_of_constructed, delivers_parsed_messages*) are about C03\'s code model of '
    'message.py (Msg/Message.lean) and, in the _c01 forms, C01\'s code model of marshal.py; those models are tied to '
    'the source by the checks of C03 / C01 and, for the composition, by the stream parsed-after-framing here',
    'parsed-after-framing: in the judged part the receiver holds no descriptors (`_receivedFDs == []`, no unix_fds '
    'header); the sub-stream with pre-loaded descriptors compares `parseMessage(raw, _receivedFDs)` and the slice '
    '`_receivedFDs[m.unix_fds:]` with the model only (S3) - how the list must evolve over a run is C05',
    'the hooks return normally in the model (`recvRun`); raising / re-entering handlers: stream reentrant-delivery',
    'connections-interleaved: a connection on which an exception escaped dataReceived (or whose handler raised, unless '
    'the scenario says the transport catches it) gets connectionLost and no further reads, as the reactor does; the OTHER '
    'connections of the history go on and are judged in full; a lost connection\'s protocol object is released at once '
    '(a later connection may get its id())',
    'connections-interleaved judges descriptor VALUES too (the body of a message that announces n descriptors holds the '
    'next n descriptors queued on ITS connection by fileDescriptorReceived) - only where all of a connection\'s '
    'descriptors are queued before the bytes that use them; the general ordering rule is C20',
    'runs in a fresh interpreter (harness.c04.fresh_fails / fresh_stream_search) happen only AFTER a violation was found '
    'in this process, to find the input that reproduces it on its own (a single scenario, or the history of connections '
    'before it); they never decide whether there is a violation',
    'a hand-off case is not judged when the AUTHENTICATOR refused the handshake although it was handed its lines '
    '(authentication is C06 / C07); when lines are missing or altered the case is judged (the handshakes use '
    'well-formed lines and 32-hex-digit GUIDs)',
]
RULE = ('one case = one (stream, partition) pair, or one history of several connections; distinct = distinct canonical '
        'JSON of (mode, reads) / of the history; non-trivial = at least one complete message or auth line is delivered')

MAX_AUTH = 16384

TRICKY_STR = ['\r', '\n', '\r\n', 'x\r\ny', '\r\n\r\n', 'BEGIN\r\n', '\n\r', 'a\rb', '\r\r\n', 'l\r\nB', '']
TRICKY_INT = [2573, 3338, 0x0A0D0A0D, 0x0D0A0D0A, 13, 10, 0x0D00, 0x000A0000, 0x0D0A00, 1, 0x7FFFFFFF]


# --------------------------------------------------------------------------------------- messages
def _mods():
    from txdbus import marshal, message, protocol, error
    return marshal, message, protocol, error


SERIALIZER_NOTES = []
_HSIG = {}


def header_signature():
    """The signature of the fixed header + field array, located through public behaviour by harness/c03_probe.py
    (the private name `message._headerFormat` is only its fast path)."""
    marshal, message, _, _ = _mods()
    key = id(message)
    if key not in _HSIG:
        from harness import c03_probe
        _HSIG[key] = c03_probe.header_signature(message, marshal)
    return _HSIG[key]


class HarnessFault(Exception):
    """The harness could not set a scenario up, or its own reach into an internal of the library failed: never a
    property violation - the stream is skipped with a note."""


def serialize(m, big):
    """Reference serializer (either byte order) of a constructed message object, following the layout
    of DBusMessage._marshal: fixed header, header field array, padding to 8, body."""
    marshal, message, _, _ = _mods()
    lend = not big
    flags = (0 if m.expectReply else 1) | (0 if m.autoStart else 2)
    body = b''.join(marshal.marshal(m.signature, m.body, lendian=lend)[1]) if m.signature else b''
    hdr = b''.join(marshal.marshal(header_signature(),
                                   [ord('B') if big else ord('l'), m._messageType, flags, 1, len(body),
                                    m.serial, m.headers], lendian=lend)[1])
    return hdr + b'\0' * (-len(hdr) % 8) + body


def canon_body(v):
    if isinstance(v, dict):
        return {'dict': [[canon_body(k), canon_body(x)] for k, x in v.items()]}
    if isinstance(v, (list, tuple)):
        return [canon_body(x) for x in v]
    if isinstance(v, (bytes, bytearray)):
        return {'bytes': bytes(v).hex()}
    if isinstance(v, bool):
        return {'bool': v}
    if isinstance(v, float):
        return {'float': struct.pack('>d', v).hex()}
    if isinstance(v, int):
        return int(v)
    if isinstance(v, str):
        return str(v)
    if v is None:
        return None
    return {'repr': repr(v)}


_ATTRS = ['path', 'interface', 'member', 'error_name', 'reply_serial', 'destination', 'sender', 'signature']


def canon_msg(m):
    d = {'type': m._messageType, 'serial': int(m.serial), 'expectReply': bool(m.expectReply),
         'autoStart': bool(m.autoStart)}
    for a in _ATTRS:
        v = getattr(m, a, None)
        d[a] = None if v is None else (int(v) if isinstance(v, int) else str(v))
    d['body'] = canon_body(m.body) if m.signature else None
    return d


BODIES = [
    ('', None), ('s', 'S'), ('i', 'I'), ('u', 'U'), ('su', 'SU'), ('as', 'AS'), ('ay', 'AY'), ('(is)', 'IS'),
    ('a{sv}', 'ASV'), ('v', 'V'), ('x', 'X'), ('ss', 'SS'), ('au', 'AU'),
]


def gen_str(rng, short):
    r = rng.random()
    if r < 0.5:
        return rng.choice(TRICKY_STR)
    if r < 0.8:
        n = rng.randrange(0, 6 if short else 40)
        return ''.join(rng.choice('ab\r\n lB\x01é') for _ in range(n))
    return rng.choice(['hello', 'org.example', 'x'])


def gen_int(rng, lo, hi):
    if rng.random() < 0.6:
        v = rng.choice(TRICKY_INT)
        if lo <= v <= hi:
            return v
    return rng.randrange(lo, min(hi, lo + 2 ** 31) + 1)


def gen_body(rng, short):
    sig, kind = rng.choice(BODIES[:6] if short and rng.random() < 0.7 else BODIES)
    S = lambda: gen_str(rng, short)
    if kind is None:
        return None, None
    if kind == 'S':
        return sig, [S()]
    if kind == 'I':
        return sig, [gen_int(rng, -2 ** 31, 2 ** 31 - 1)]
    if kind == 'U':
        return sig, [gen_int(rng, 0, 2 ** 32 - 1)]
    if kind == 'SU':
        return sig, [S(), gen_int(rng, 0, 2 ** 32 - 1)]
    if kind == 'AS':
        return sig, [[S() for _ in range(rng.randrange(0, 4))]]
    if kind == 'AY':
        n = rng.choice([0, 1, 2, 13, 10]) if short else rng.choice([0, 3, 13, 10, 2573, 3338, 100])
        return sig, [[rng.choice([13, 10, 0, 108, 66, 255]) for _ in range(n)]]
    if kind == 'IS':
        return sig, [[gen_int(rng, -2 ** 31, 2 ** 31 - 1), S()]]
    if kind == 'ASV':
        d = {}
        for _ in range(rng.randrange(0, 3)):
            d[S() + str(len(d))] = rng.choice([S(), gen_int(rng, 0, 2 ** 31 - 1)])
        return sig, [d]
    if kind == 'V':
        return sig, [rng.choice([S(), gen_int(rng, 0, 2 ** 31 - 1)])]
    if kind == 'X':
        return sig, [gen_int(rng, -2 ** 63, 2 ** 63 - 1)]
    if kind == 'SS':
        return sig, [S(), S()]
    if kind == 'AU':
        return sig, [[gen_int(rng, 0, 2 ** 32 - 1) for _ in range(rng.randrange(0, 4))]]
    raise AssertionError(kind)


def gen_message(rng, short=False, kinds=('ret', 'err', 'sig', 'call'), big=None):
    """-> (raw bytes, big?, message object).  Byte order mixed."""
    marshal, message, _, _ = _mods()
    kind = rng.choice(kinds if not short else ('ret', 'ret', 'ret', 'err', 'call'))
    sig, body = gen_body(rng, short)
    rs = gen_int(rng, 1, 2 ** 32 - 1)
    if kind == 'ret':
        m = message.MethodReturnMessage(rs, body=body, signature=sig,
                                        destination=rng.choice([None, None, ':1.5']))
    elif kind == 'err':
        m = message.ErrorMessage(rng.choice(['a.b', 'org.freedesktop.DBus.Error.Failed']), rs,
                                 signature=sig, body=body)
    elif kind == 'sig':
        m = message.SignalMessage(rng.choice(['/', '/a/b']), rng.choice(['M', 'Changed']),
                                  rng.choice(['a.b', 'org.example.Iface']), signature=sig, body=body)
    else:
        m = message.MethodCallMessage(rng.choice(['/', '/a']), rng.choice(['M', 'Get']),
                                      interface=rng.choice([None, 'a.b']),
                                      destination=rng.choice([None, 'a.b', ':1.2']),
                                      signature=sig, body=body,
                                      expectReply=rng.random() < 0.7, autoStart=rng.random() < 0.7)
    # cross-check of the reference serializer against what the constructor itself produced (public rawMessage)
    if serialize(m, False) != m.rawMessage and len(SERIALIZER_NOTES) < 3:
        SERIALIZER_NOTES.append('reference serializer differs from the constructor: %s vs %s'
                                % (serialize(m, False).hex()[:200], m.rawMessage.hex()[:200]))
    m.serial = gen_int(rng, 1, 2 ** 32 - 1)
    if big is None:
        big = rng.random() < 0.5
    raw = serialize(m, big)
    return raw, big, m


def expected_of(raws, fds=()):
    """The messages sent, as the receiver should see them: each raw message parsed on its own.  `fds` = the descriptors
    queued on THIS connection, in arrival order: a message that announces n descriptors takes the next n."""
    _, message, _, _ = _mods()
    fds, out = list(fds or []), []
    for r in raws:
        m = message.parseMessage(r, fds)
        out.append(canon_msg(m))
        n = getattr(m, 'unix_fds', None)
        if isinstance(n, int) and not isinstance(n, bool):
            fds = fds[n:]
    return out


# --------------------------------------------------------------------------------------- partitions
def cut(stream, positions):
    ps = [0] + sorted(positions) + [len(stream)]
    return [stream[a:b] for a, b in zip(ps, ps[1:])]


def all_single_double_cuts(n):
    """Every single and every double cut position of a stream of length n, empty reads included."""
    for i in range(0, n + 1):
        yield (i,)
    for i in range(0, n + 1):
        for j in range(i, n + 1):
            yield (i, j)


def random_partition(rng, stream):
    n = len(stream)
    style = rng.randrange(6)
    if style == 0:
        return [stream]
    if style == 1 and n <= 4000:
        return [stream[i:i + 1] for i in range(n)]
    if style == 2:
        k = rng.randrange(1, 6)
        return cut(stream, [rng.randrange(0, n + 1) for _ in range(k)])
    if style == 3:
        # small chunks, some empty
        out, i = [], 0
        while i < n:
            k = rng.choice([0, 1, 1, 2, 3, 7, 15, 16, 17, 31])
            out.append(stream[i:i + k])
            i += k
        return out
    if style == 4:
        out, i = [], 0
        while i < n:
            k = rng.randrange(1, max(2, n // 3))
            out.append(stream[i:i + k])
            i += k
        return out
    # cuts at header boundaries +-1
    k = rng.randrange(1, 5)
    pts = [min(n, max(0, rng.choice([15, 16, 17, 4, 8, 12, 1]) + rng.randrange(0, n + 1))) for _ in range(k)]
    return cut(stream, pts)


# --------------------------------------------------------------------------------------- running the real code
class HandlerError(Exception):
    """Raised by a scheduled message handler (stream reentrant-delivery)."""


class _FakeBus:
    uuid = b'0123456789abcdef0123456789abcdef'

    def clientDisconnected(self, p):
        pass


class _FakeFactory:
    bus = _FakeBus()

    def _ok(self, proto):
        pass

    def _failed(self, err):
        pass


class _FakeSocket:
    def getsockopt(self, level, opt, size):
        return struct.pack('3i', 1, 1, 1)


def exc_name(e):
    """Exception names as Driver.pyErrName prints them."""
    n = type(e).__name__
    if n == 'error' and type(e).__module__ == 'struct':
        return 'struct.error'
    if isinstance(e, UnicodeError):
        return 'UnicodeError'
    return n


HOOK_OF_TYPE = {1: 'call', 2: 'ret', 3: 'err', 4: 'sig'}      # the property: a message is delivered to the hook of its type


def _make_classes():
    """Build the observing subclasses against the txdbus currently imported (ctx.repo)."""
    marshal, message, protocol, error = _mods()
    from txdbus import authentication, bus
    from zope.interface import implementer
    import twisted.python.log  # noqa

    class Recorder:
        swallow = False
        parse_failed = False

        def _rec_init(self):
            self.effects = []
            self.parsed = []
            self.raws = []
            self.objs = []           # (hook name, what that hook was handed) / the name of the parse exception
            self.hooks = []          # the hook names, in call order

        def rawDBusMessageReceived(self, raw):
            self.effects.append('M' + (bytes(raw).hex() or '-') if len(raw) < 10 ** 7 else 'M<%d bytes>' % len(raw))
            self.raws.append(bytes(raw))
            try:
                protocol.BasicDBusProtocol.rawDBusMessageReceived(self, raw)
            except HandlerError:
                raise                    # a scheduled handler failure, not a parse error
            except Exception as e:
                self.parsed.append({'parse-error': type(e).__name__})
                self.objs.append(exc_name(e))
                self.parse_failed = True
                if not self.swallow:     # as in the real code: the exception escapes dataReceived
                    raise

        hook = None      # schedule for nested / raising handlers (stream reentrant-delivery)

        def _received(self, which, m):
            self.parsed.append(canon_msg(m))
            self.objs.append((which, m))
            self.hooks.append(which)
            if self.hook is not None:
                self.hook(len(self.parsed) - 1)

        # four DISTINCT hooks (review 3, F1): which one `rawDBusMessageReceived` calls is observed
        def methodCallReceived(self, m):
            self._received('call', m)

        def methodReturnReceived(self, m):
            self._received('ret', m)

        def errorReceived(self, m):
            self._received('err', m)

        def signalReceived(self, m):
            self._received('sig', m)

    @implementer(protocol.IDBusAuthenticator)
    class StubAuth:
        script = ''

        def __init__(self, *a):
            self.i = 0
            self.ok = False

        def beginAuthentication(self, p):
            self.p = p

        def handleAuthMessage(self, line):
            self.p.effects.append('L' + (bytes(line).hex() or '-'))
            o = self.script[self.i] if self.i < len(self.script) else 'c'
            self.i += 1
            if o == 'f':
                raise error.DBusAuthenticationFailed('scripted')
            self.ok = (o == 's')

        def authenticationSucceeded(self):
            return self.ok

        def getGUID(self):
            return b'guid'

    @implementer(protocol.IDBusAuthenticator)
    class Wrap:
        """Records, for a real authenticator, each handled line and its outcome."""

        def __init__(self, inner, p):
            self.inner, self.p = inner, p
            self.script = []

        def beginAuthentication(self, p):
            return self.inner.beginAuthentication(p)

        def handleAuthMessage(self, line):
            self.p.effects.append('L' + (bytes(line).hex() or '-'))
            try:
                self.inner.handleAuthMessage(line)
            except error.DBusAuthenticationFailed:
                self.script.append('f')
                raise

        def authenticationSucceeded(self):
            r = self.inner.authenticationSucceeded()
            self.script.append('s' if r else 'c')
            return r

        def getGUID(self):
            return self.inner.getGUID()

    class Basic(Recorder, protocol.BasicDBusProtocol):
        pass

    class Server(Recorder, bus.BusProtocol):
        pass

    class StubServer(Recorder, bus.BusProtocol):
        """A server-side protocol (the role comes from the real server class, not from a private flag) whose
        authenticator is the scripted stub."""

    Basic.StubServer = StubServer

    from txdbus import client

    class ClientConn(Recorder, client.DBusClientConnection):
        """The real client protocol (its connectionAuthenticated hook sends Hello before the hand-off)."""

    Basic.ClientConn = ClientConn
    return Basic, Server, StubAuth, Wrap, authentication


_CLS = {}


def classes(ctx):
    key = ctx.repo
    if key not in _CLS:
        _CLS[key] = _make_classes()
    return _CLS[key]


class Conn:
    """One connection on the real code, made the way a reactor makes it: `proto = Class()`, a public `authenticator`
    hook, `proto.makeConnection(transport)`; every later change of its state comes from calls a transport makes
    (`dataReceived`, `fileDescriptorReceived`, `connectionLost`).  Nothing of the receiver's state is set by hand
    (state-leak round 2026-09-30, STATE_AUDIT G3): mode 'binary' reaches binary mode through a handshake read of its
    own (`BEGIN` + stub authenticator), descriptors are queued through `fileDescriptorReceived`."""

    PRELUDE = b'BEGIN\r\n'

    def __init__(self, ctx, sc):
        from twisted.internet.testing import StringTransport
        from txdbus import protocol
        Basic, Server, StubAuth, Wrap, authentication = classes(ctx)
        self.ctx, self.sc = ctx, sc
        mode = self.mode = sc['mode']
        tr = self.tr = StringTransport()
        lose0 = tr.loseConnection
        # the Linux-only SO_PEERCRED lookup of a server's first read: the transport always offers a socket, so the
        # scenario runs whatever the platform switch says; when the switch is where we know it, both branches are driven
        tr.socket = _FakeSocket()
        self.linux = bool(sc.get('linux')) and mode.endswith('server')
        self._set_platform()
        wrapbox = []

        def wrapped(cls_):
            # the public hook `authenticator` (a class or any callable): record each handled line and its outcome
            def make(*a):
                w = Wrap(cls_(*a), p)
                wrapbox.append(w)
                return w
            return make
        try:
            if mode in ('binary', 'stub-client', 'stub-server'):
                p = Basic.StubServer() if mode == 'stub-server' else Basic()
                script = 's' if mode == 'binary' else sc.get('script', '')
                cls = type('StubAuthS', (StubAuth,), {'script': script})
                from zope.interface import classImplements
                classImplements(cls, protocol.IDBusAuthenticator)
                p.authenticator = cls
            elif mode == 'real-client':
                p = Basic()
                p.authenticator = wrapped(authentication.ClientAuthenticator)
            elif mode == 'real-server':
                p = Server()
                p.authenticator = wrapped(type(p).authenticator)
            elif mode == 'real-clientconn':
                p = Basic.ClientConn()
                p.authenticator = wrapped(type(p).authenticator)
            else:
                raise ValueError(mode)
            p._rec_init()
            p.swallow = bool(sc.get('swallow'))
            p.factory = _FakeFactory()
            p.makeConnection(tr)
            if mode.startswith('real') and not wrapbox:
                raise HarnessFault('the authenticator hook was not used by connectionMade')
            if mode == 'binary':
                # the handshake of a binary-mode scenario: a read of its own, not part of the scenario
                p.dataReceived(self.PRELUDE)
                if not p._authenticated or p.effects != ['L' + b'BEGIN'.hex()] or tr.disconnecting:
                    raise HarnessFault('the prelude handshake (BEGIN in a read of its own, stub authenticator) did not '
                                       'end in binary mode: effects %r' % (p.effects[:4],))
                p._rec_init()
            for fd in (sc.get('fds') or []):
                p.fileDescriptorReceived(fd)          # as the transport queues a descriptor
        except HarnessFault:
            raise
        except (AttributeError, TypeError) as e:
            raise HarnessFault('setting up mode %s failed: %s: %s' % (mode, type(e).__name__, e))
        self.p = p
        self.wrap = wrapbox[0] if wrapbox else None

        def lose():
            p.effects.append('X')
            lose0()
        tr.loseConnection = lose

        self.exc = None
        self.crashed = None
        self.dead = False          # the reactor no longer reads from it (exception escaped / connectionLost)
        self.raised = 0
        self.fed = []              # the reads that were delivered to dataReceived (hex), in order
        if 'max_msg' in sc:
            # the class constant lowered for this connection: code that consults it while framing is exercised
            # at this scale; the unchanged dataReceived never reads it
            p.MAX_MSG_LENGTH = sc['max_msg']
        self.pending = []          # reads still to come, last = next (single-connection scenarios; nested handlers)
        nest = {int(k): v for k, v in (sc.get('nest') or {}).items()}
        raise_at = sc.get('raise_at')
        if nest or raise_at is not None:
            def hook(j):
                # (a) the handler of message j feeds the next read(s) of the SAME stream before it returns (a peer on a
                #     synchronous in-memory transport answering at once); (b) the handler of message j raises
                for _ in range(nest.get(j, 0)):
                    if self.pending:
                        self._set_platform()
                        p.dataReceived(self.pending.pop())
                if raise_at == j:
                    raise HandlerError('handler of message %d' % j)
            p.hook = hook

    def _set_platform(self):
        from txdbus import protocol
        if hasattr(protocol, '_is_linux'):
            protocol._is_linux = self.linux

    def feed(self, data):
        """One `dataReceived`.  -> None | 'handler' (a scheduled handler raised) | 'crashed' (any other exception
        escaped: the reactor drops the connection)."""
        self._set_platform()             # a module-level switch: other connections of the scenario may want the other branch
        if len(data) <= 10 ** 6:
            self.fed.append(bytes(data).hex())
        try:
            self.p.dataReceived(data)
        except HandlerError:
            self.raised += 1
            return 'handler'
        except Exception as e:
            import traceback
            tb = traceback.extract_tb(e.__traceback__)
            if isinstance(e, (AttributeError, TypeError)) and tb and tb[-1].filename.endswith(
                    ('harness/c04.py', 'harness/c20.py')):
                raise HarnessFault('%s inside the harness at line %d: %s' % (type(e).__name__, tb[-1].lineno, e))
            self.crashed = type(e).__name__
            self.p.effects.append('!')
            self.dead = True
            self.exc = e
            return 'crashed'
        return None

    def lose(self, reason=None):
        """What the reactor does when the peer goes away or after an exception escaped `dataReceived`."""
        from twisted.python.failure import Failure
        from twisted.internet.error import ConnectionDone
        self.dead = True
        try:
            self.p.connectionLost(Failure(reason if reason is not None else ConnectionDone()))
        except Exception as e:                      # what connectionLost does is not C04's matter
            if 'connectionLost' not in _NOTED:
                _NOTED.add('connectionLost')
                self.ctx.note('connectionLost raised %s: %s (ignored)' % (type(e).__name__, e))

    def release(self):
        """Break the reference cycles the harness itself built around the protocol, so that the object is freed now."""
        import gc
        p = self.p
        p.hook = None
        try:
            del self.tr.loseConnection
        except AttributeError:
            pass
        self.wrap = self.p = self.tr = self.exc = None
        del p
        gc.collect()          # cheap: observe_history froze everything that existed before the history

    def obs(self):
        ctx, p, tr = self.ctx, self.p, self.tr
        ctx.impl_trace()
        # `_buffer` and `_authenticated` are pinned by the test suite; the cached length and the first-byte flag are
        # not: compared when they are where we know them, '?' otherwise (the buffer determines both behaviourally)
        nxt = getattr(p, '_nextMsgLen', None)
        fb = getattr(p, '_firstByte', None)
        final = '%s %s %d %s %d' % (bytes(p._buffer).hex() or '-', '?' if not isinstance(nxt, int) else nxt,
                                    1 if p._authenticated else 0, '?' if fb is None else (1 if fb else 0),
                                    1 if tr.disconnecting else 0)
        for name, v in (('_nextMsgLen', nxt), ('_firstByte', fb)):
            if v is None and name not in _MISSING:
                _MISSING.add(name)
                ctx.note('private attribute %s not found on the protocol: left out of the compared final state' % name)
        if self.wrap is not None:
            script = ''.join(self.wrap.script)
        else:
            script = self.sc.get('script', '')
        return {'effects': p.effects, 'final': final, 'parsed': p.parsed, 'raws': p.raws, 'script': script,
                'crashed': self.crashed, 'authenticated': bool(p._authenticated), 'parse_failed': p.parse_failed,
                'objs': p.objs, 'hooks': p.hooks, 'fds': list(getattr(p, '_receivedFDs', None) or []),
                'fed': self.fed, 'raised': self.raised}


def observe(ctx, sc):
    """Run one single-connection scenario on the real code.
    -> dict(effects, final, parsed, raws, script, crashed, ...)"""
    if sc.get('mode') == 'multi':
        return observe_history(ctx, sc)
    c = Conn(ctx, sc)
    c.pending = [rd if isinstance(rd, bytes) else bytes.fromhex(rd) for rd in (sc.get('_reads') or sc['reads'])]
    c.pending.reverse()                       # pop() takes the next read
    while c.pending:
        r = c.feed(c.pending.pop())
        if r == 'handler':
            # caught as a transport would; the connection is kept for the schedule
            if not c.pending:
                c.pending.append(b'')         # what was buffered behind the failing message is framed by the next read
        elif r == 'crashed':
            break                             # the reactor drops the connection: no further read
    return c.obs()


def observe_history(ctx, sc):
    """A HISTORY over several connections of one process (mode 'multi'): `events` = [op, connection, argument]:
    'open' (make the connection), 'read' (one dataReceived), 'fd' (one fileDescriptorReceived), 'lose' (connectionLost).
    Connections are made when their 'open' event comes, live side by side, and are judged one by one.  A connection
    on which an exception escaped `dataReceived` is dropped as the reactor drops it (connectionLost, no further reads:
    its later 'read' events are skipped); the OTHER connections go on.  A connection whose scheduled handler raised
    (`raise_at`) is dropped too unless it says `after_raise: keep`.  -> list of observations, one per connection."""
    import gc
    gc.freeze()              # a lost connection is collected at once (Conn.release): keep those collections small
    try:
        return _observe_history(ctx, sc)
    finally:
        gc.unfreeze()


def _observe_history(ctx, sc):
    conns, done = {}, {}

    def gone(k):
        # the reactor forgets a lost connection: nothing of it is kept alive by the harness (a later connection may get
        # the same id()), only what was observed
        c = conns.pop(k)
        done[k] = c.obs()
        c.release()
    for ev in sc['events']:
        op, k = ev[0], ev[1]
        if op == 'open':
            conns[k] = Conn(ctx, sc['conns'][k])
            continue
        c = conns.get(k)
        if c is None:
            continue                       # lost before: the reactor delivers nothing more to it
        if op == 'read':
            r = c.feed(bytes.fromhex(ev[2]))
            if r == 'crashed':
                c.lose(c.exc)
                gone(k)
            elif r == 'handler' and c.sc.get('after_raise') != 'keep':
                c.lose(HandlerError('handler'))
                gone(k)
        elif op == 'fd':
            c.p.fileDescriptorReceived(ev[2])
        elif op == 'lose':
            c.lose()
            gone(k)
        else:
            raise ValueError(op)
    for k in list(conns):
        done[k] = conns[k].obs()
    return [done.get(k) for k in range(len(sc['conns']))]


_MISSING = set()
_NOTED = set()


def strip_endian(model_out):
    """The driver prints `| buffer next big auth fb closed`; `_endian` is not compared."""
    head, sep, tail = model_out.rpartition('| ')
    t = tail.split(' ')
    if len(t) != 6:
        return model_out
    t = t[:2] + t[3:]
    if '_nextMsgLen' in _MISSING:
        t[1] = '?'
    if '_firstByte' in _MISSING:
        t[3] = '?'
    return head + sep + ' '.join(t)


def impl_line(obs):
    return ''.join(e + ' ' for e in obs['effects']) + '| ' + obs['final']


def model_line(sc, script):
    mode = sc['mode']
    client = '0' if mode in ('stub-server', 'real-server') else '1'
    auth = '1' if mode == 'binary' else '0'
    if sc.get('parse'):
        fds = ','.join(str(int(f)) for f in (sc.get('fds') or [])) or '-'
        return 'P %s %s %s %s %s' % (client, auth, script or '-', fds, ' '.join(r or '-' for r in sc['reads']))
    return 'R %s %s %s %s' % (client, auth, script or '-', ' '.join(r or '-' for r in sc['reads']))


_PARSED_ATTRS = ['path', 'interface', 'member', 'error_name', 'reply_serial', 'destination', 'sender',
                 'signature', 'unix_fds']


def attr_str(v):
    """A header attribute in the driver's syntax (Driver/C04.lean `attrStr`)."""
    from harness import valcodec as vc
    if v is None:
        return 'N'
    if isinstance(v, bool):
        return 'b1' if v else 'b0'
    if isinstance(v, int):
        return 'i%d' % int(v)
    if isinstance(v, float):
        return 'd' + struct.pack('>d', v).hex()
    if isinstance(v, str):
        return 's' + vc.str_hex(str(v))
    return '?other'


def parsed_str(m):
    """What a ...Received hook was handed, in the syntax of the driver command `P` (`showParsed`)."""
    from harness import valcodec as vc
    if isinstance(m, str):
        return 'err ' + m
    which, m = m
    body = getattr(m, 'body', None)
    try:
        bs = 'N' if body is None else vc.to_line(list(body))
    except (ValueError, TypeError) as e:
        bs = '?%s' % type(e).__name__
    return 'ok hook=%s type=%d serial=%d er=%s as=%s of=%d %s body=%s' % (
        which, m._messageType, int(m.serial), 'T' if m.expectReply else 'F', 'T' if m.autoStart else 'F',
        int(getattr(m, 'otherFlags', 0)),
        ' '.join('%s=%s' % (a, attr_str(getattr(m, a, None))) for a in _PARSED_ATTRS), bs)


def parsed_line(obs):
    return (' ; '.join(parsed_str(m) for m in obs['objs']) or '-') + ' || fds=' + (
        ','.join(str(int(f)) for f in obs['fds']) or '-')


# --------------------------------------------------------------------------------------- judging
def refused_by_authenticator(sc, authenticated, effects, script):
    """Not authenticated although the framing did its part: the authenticator was handed the handshake lines
    (all of them, or a prefix that ends with a line it refused) and did not report success.  Then authentication
    - C06 / C07 - decided, and C04 / C20 have nothing to judge.  If lines are missing or different, the framing
    is at fault and the case IS judged."""
    if authenticated:
        return False
    hs = bytes.fromhex(sc.get('handshake', ''))
    if sc['mode'].endswith('server') and hs[:1] == b'\0':
        hs = hs[1:]
    want = [l.hex() or '-' for l in hs.split(b'\r\n')[:-1]]
    got = [e[1:] for e in effects if e.startswith('L')]
    if got == want:
        return True
    return 'f' in script and got == want[:len(got)]


def classify(sc, obs):
    """Key of a violation of the oracle on scenario sc (None = property holds)."""
    sent = sc.get('_sent') or [bytes.fromhex(h) for h in sc['sent']]
    if sc['mode'] != 'binary' and refused_by_authenticator(sc, obs['authenticated'], obs['effects'], obs['script']):
        return None, None            # the AUTHENTICATOR did not accept the handshake: nothing for C04 to judge
    if 'bad_index' in sc:
        # judged up to and including the message that does not parse (the exception escapes there)
        k = sc['bad_index'] + 1
        if obs['raws'] == sent[:k] and obs['crashed'] and obs['parse_failed']:
            return None, None
        return 'delivery-after-unparsable-message', (
            'an unparsable message inside a coalesced read: delivered %d raw messages, exception %r; expected the '
            'first %d and the parse error escaping dataReceived' % (len(obs['raws']), obs['crashed'], k))
    if obs['raws'] == sent and obs['parsed'] == expected_of(sent, sc.get('fds') if sc.get('judge_fds') else ()):
        # every message reaches the hook of ITS type (the property observes the calls of the four hooks)
        want_hooks = [HOOK_OF_TYPE.get(d['type']) for d in obs['parsed']]
        if obs.get('hooks') is not None and obs['hooks'] != want_hooks:
            return 'delivered-to-wrong-hook', ('the messages were framed and parsed, but handed to the hooks %r; their '
                                               'types ask for %r' % (obs['hooks'][:12], want_hooks[:12]))
        # ... and is handed what the SENDER constructed (when the scenario kept the constructed objects): type, serial,
        # flags, header fields, body in the codec's normal form - not only what parseMessage makes of the same bytes
        for k, want in enumerate(sc.get('constructed') or []):
            if want is not None and k < len(obs['parsed']) and obs['parsed'][k] != want:
                diff = sorted(a for a in want if obs['parsed'][k].get(a) != want[a])
                return 'delivered-differs-from-constructed', (
                    'message %d was delivered intact as bytes, but the hook was handed a message that differs from the '
                    'object the constructor built in %r (C03 composed with C04: "exactly the messages sent")' % (k, diff))
        return None, None
    what = 'delivered %d messages, sent %d' % (len(obs['raws']), len(sent))
    if obs['crashed']:
        what += '; %s escaped dataReceived' % obs['crashed']
    if sc.get('judge_fds') and obs['raws'] == sent and not obs['crashed']:
        exp = expected_of(sent, sc.get('fds'))
        nobody = lambda d: {a: b for a, b in d.items() if a != 'body'}
        if len(exp) == len(obs['parsed']) and all('parse-error' not in g and nobody(g) == nobody(e)
                                                  for g, e in zip(obs['parsed'], exp)):
            return 'delivered-with-descriptors-of-another-connection', (
                'the frames are intact, but the descriptor values handed over with them are not the descriptors that '
                'were queued on this connection (fileDescriptorReceived), in order: ' + what)
    reads = sc.get('_reads') or [bytes.fromhex(r) for r in sc['reads']]
    if sc.get('nest') or sc.get('raise_at') is not None:
        return ('reentrant-delivery-misframed',
                'a read delivered while a message handler runs, or after a handler raised, is framed differently: '
                + what)
    if 'max_msg' in sc or 'compact_huge' in sc:
        return 'size-limit-applied-to-buffer', ('messages within the size limit, the buffer as a whole over it: ' + what)
    if sc['mode'] == 'binary':
        if obs['crashed'] == 'RecursionError' or (obs['crashed'] and max(len(r) for r in reads) > 10000):
            return 'coalesced-read-recursion', 'many complete messages in one read: ' + what
        return 'partition-dependent-delivery', 'binary mode: ' + what
    hs = bytes.fromhex(sc.get('handshake', ''))
    rest = b''.join(sent)
    # does one read hold the end of the handshake together with message bytes?
    pos, joined, tail = 0, False, 0
    for r in reads:
        if pos < len(hs) < pos + len(r):
            joined = True
            after = r[len(hs) - pos:]
            tail = len(after) - (after.rfind(b'\r\n') + 2 if b'\r\n' in after else 0)
        pos += len(r)
    if joined and tail > MAX_AUTH + 1:
        return 'handoff-tail-over-auth-limit', ('more than MAX_AUTH_LENGTH + 1 message bytes after the last CR LF of '
                                                'the read that holds the final handshake line: ' + what)
    if joined and b'\r\n' in rest:
        return 'handoff-crlf-in-message', ('message bytes containing 0d0a in the same read as the final '
                                           'handshake line: ' + what)
    if joined:
        return 'handoff-joined-read', 'message bytes in the same read as the final handshake line: ' + what
    return 'handoff-messages-differ', 'handshake followed by messages: ' + what


SKIPPED = {}


class Batch:
    """Collects scenarios, runs model (one driver call) and implementation, reports."""

    def __init__(self, ctx):
        self.ctx = ctx
        self.items = []

    def add(self, stream, sc, oracle=True, sample=None):
        self.items.append((stream, sc, oracle, sample))
        if len(self.items) >= 4000:
            self.flush()

    def flush(self):
        ctx = self.ctx
        items, self.items = self.items, []
        if not items:
            return
        obs, kept = [], []
        for it in items:
            try:
                obs.append(observe(ctx, it[1]))
                kept.append(it)
            except HarnessFault as e:
                ctx.streams_run.add(it[0])
                SKIPPED[it[0]] = SKIPPED.get(it[0], 0) + 1
                if SKIPPED[it[0]] == 1:
                    ctx.note('stream %s: scenario skipped, the harness could not run it (%s)' % (it[0], e))
        items = kept
        # one driver call for the whole batch: one line per single-connection scenario, one per connection of a history
        lines, where = [], []
        for k, (_, sc, _, _) in enumerate(items):
            if sc['mode'] == 'multi':
                # the whole history through the model's `runHist` (command H: framing of every connection), and the
                # composed model (command P) for the connections that ask for it
                hl, _ = history_model_line(sc, obs[k])
                if hl is not None:
                    lines.append(hl)
                    where.append((k, 'H'))
                for j, csc, o in history_parts(sc, obs[k]):
                    if csc.get('parse') and not csc.get('no_model'):
                        lines.append(model_line(csc, o['script']))
                        where.append((k, j))
            elif not sc.get('no_model'):
                lines.append(model_line(sc, obs[k]['script']))
                where.append((k, None))
        mo = ctx.model(lines)
        out = dict(zip(where, mo)) if mo is not None else None
        for k, ((stream, sc, oracle, sample), o) in enumerate(zip(items, obs)):
            if sc['mode'] == 'multi':
                report_history(ctx, stream, sc, o, out, k, oracle,
                               earlier=[it[1] for it in items[max(0, k - 6):k]])
                continue
            nontrivial = bool(o['effects'])
            if 'compact_huge' in sc:
                ctx.case(stream, sample={'mode': sc['mode'], 'compact_huge': sc['compact_huge']})
                key, what = classify(sc, o)
                if key:
                    ctx.violation(key, what, inp=shrink_sc(sc), observed={'n_delivered': len(o['raws']),
                                                                         'exception': o['crashed']},
                                  expected={'n_sent': len(sc['_sent']), 'rule': 'delivered == sent, in order'})
                continue
            small = sum(len(r) for r in sc['reads']) <= 600
            ctx.case(stream, sample=({'mode': sc['mode'], 'reads': sc['reads']} if small else
                                     {'mode': sc['mode'], 'reads': len(sc['reads']),
                                      'bytes': sum(len(r) for r in sc['reads']) // 2}),
                     nontrivial=nontrivial)
            ctx.stat('%s:reads=%s' % (stream, bucket(len(sc['reads']))))
            if sc['mode'] == 'binary' and sc['sent']:
                # a single read that holds the fixed headers of messages in both byte orders
                pos, starts = 0, []
                for h in sc['sent']:
                    starts.append((pos, h[:2]))
                    pos += len(h) // 2
                rp, mixed = 0, False
                for r in sc['reads']:
                    kinds = {k for (st, k) in starts if rp <= st < rp + len(r) // 2}
                    mixed = mixed or len(kinds) > 1
                    rp += len(r) // 2
                ctx.stat('%s:one-read-mixed-endian=%s' % (stream, mixed))
            if sc.get('handshake'):
                hs = len(sc['handshake']) // 2
                rp, pieces = 0, 0
                for r in sc['reads']:
                    n = len(r) // 2
                    if rp < hs < rp + n:
                        pieces = bytes.fromhex(r)[hs - rp:].count(b'\r\n')
                    rp += n
                ctx.stat('%s:crlf-pieces-in-joined-read=%s' % (stream, bucket(pieces)))
            ctx.stat('%s:delivered=%s' % (stream, bucket(len(o['raws']))))
            if o['crashed']:
                ctx.stat('%s:exception=%s' % (stream, o['crashed']))
            if oracle and sc['mode'] != 'binary' and refused_by_authenticator(sc, o['authenticated'], o['effects'],
                                                                                o['script']):
                ctx.stat('%s:not-authenticated(S3 only)' % stream)
            if out is not None and (k, None) in out:
                compare_model(ctx, stream, shrink_sc(sc), sc, o, out[(k, None)])
            if oracle:
                key, what = classify(sc, o)
                if key:
                    inp = shrink_sc(sc)
                    if convertible(sc):
                        # does this input reproduce the failure on its own, or did an earlier connection of this
                        # process leave something behind?  (STATE_AUDIT M6 / G7: then the SEQUENCE is the input)
                        key2, small, sk, remark = locate(ctx, as_history(sc), 0, key,
                                                         [it[1] for it in items[max(0, k - 6):k]])
                        if key2 != key or len(small['conns']) > 1:
                            key, inp = key2, dict(small, failing_connection=sk)
                        if remark:
                            what = '%s; %s' % (what, remark)
                    ctx.violation(key, what, inp=inp,
                                  observed={'delivered_raw': [clip(r.hex()) for r in o['raws']][:20],
                                            'n_delivered': len(o['raws']), 'exception': o['crashed']},
                                  expected={'n_sent': len(sc['sent']), 'rule': 'delivered == sent, in order'})


def compare_model(ctx, stream, inp, sc, o, mline):
    """S3 for one connection: the driver's line against the observation of the real code."""
    il = impl_line(o)
    if sc.get('parse'):
        # the composed model: framing part (compared as usual), then the parsed messages
        mhead, sep, mparsed = mline.partition(' || ')
        ml = strip_endian(mhead) + sep + mparsed
        il = il + ' || ' + parsed_line(o)
    else:
        ml = strip_endian(mline)
    if o['parse_failed'] and o['crashed'] and sc.get('parse'):
        # `recvRun` models the escaping exception (effects cut, `!`, later frames buffered): compared in full
        if ml != il:
            ctx.disagree(stream, inp, clip(ml), clip(il))
    elif o['parse_failed'] and o['crashed']:
        # the model frames only: its effects must START with what was delivered before the parse error
        want = ''.join(e + ' ' for e in o['effects'] if e != '!')
        if not ml.startswith(want):
            ctx.disagree(stream, inp, clip(ml), clip(il))
    elif ml != il:
        ctx.disagree(stream, inp, clip(ml), clip(il))


# --------------------------------------------------------------------------------------- histories of several connections
def history_parts(sc, obs_list):
    """The connections of a history one by one: (index, single-connection scenario = the connection's spec with the
    reads that were delivered to it and the descriptors queued on it, its observation)."""
    for k, o in enumerate(obs_list):
        if o is None:
            continue
        csc = dict(sc['conns'][k])
        csc['reads'] = list(o['fed'])
        fds = [ev[2] for ev in sc['events'] if ev[0] == 'fd' and ev[1] == k]
        if fds:
            csc['fds'] = fds
        yield k, csc, o


def history_model_line(sc, obs_list):
    """The driver line `H` of a history: the connections the model covers (handlers that raise are not in it), each
    with its role and the recorded outcomes of its authenticator, and the reads that were delivered, in history order.
    -> (line | None, the indices of the connections in the line)"""
    parts = {k: (csc, o) for k, csc, o in history_parts(sc, obs_list) if not csc.get('no_model')}
    included = sorted(parts)
    if not included:
        return None, []
    ren = {k: i for i, k in enumerate(included)}
    head = ['H', str(len(included))]
    for k in included:
        csc, o = parts[k]
        head += ['0' if csc['mode'] in ('stub-server', 'real-server') else '1', o['script'] or '-']
    left = {k: len(parts[k][1]['fed']) for k in included}
    evs = []
    for ev in sc['events']:
        if ev[0] == 'read' and left.get(ev[1], 0) > 0:
            left[ev[1]] -= 1
            evs.append('%d:%s' % (ren[ev[1]], ev[2] or '-'))
    return ' '.join(head + evs), included


def judge_history(ctx, sc, obs_list):
    """The oracle of the statement applied to EVERY connection of the history: connection k delivered exactly the
    messages sent on connection k, each once, in order, identical content - whatever happened on the others.
    -> [(k, key, what, csc, o)] for the connections on which it fails."""
    bad = []
    for k, csc, o in history_parts(sc, obs_list):
        key, what = classify(csc, o)
        if key:
            bad.append((k, key, what, csc, o))
    return bad


def drop_connections(sc, keep):
    """The history restricted to the connections in `keep` (renumbered)."""
    keep = sorted(keep)
    ren = {k: i for i, k in enumerate(keep)}
    d = dict(sc)
    d['conns'] = [sc['conns'][k] for k in keep]
    d['events'] = [[ev[0], ren[ev[1]]] + list(ev[2:]) for ev in sc['events'] if ev[1] in ren]
    return d, ren


FRESH = {'left': 0, 'keys': set(), 'tries': {}}
FRESH_BUDGET = 16
_FRESH_CODE = (
    "import sys, json, os\n"
    "d = json.load(sys.stdin)\n"
    "sys.path.insert(0, d['verif']); os.chdir(d['verif'])\n"
    "from vlib import ctx as ctxmod\n"
    "ctxmod.use_repo(d['repo'])\n"
    "from harness import c04\n"
    "c = ctxmod.Ctx('C04', 'quick', 0, d['repo'])\n"
    "c.model_available = False\n"
    "bad = c04.judge_history(c, d['history'], c04.observe_history(c, d['history']))\n"
    "print('FRESH-RESULT ' + json.dumps([[x[0], x[1]] for x in bad]))\n")


def fresh_fails(ctx, hist, k):
    """Run the history in a FRESH interpreter (modules imported anew, nothing left by earlier scenarios) and judge it.
    -> True / False: connection k fails there / does not; None: no budget left or the run itself failed.
    Used only after a violation was found, to find out WHAT reproduces it (never to decide whether there is one)."""
    import json
    import os
    import subprocess
    import sys
    if FRESH['left'] <= 0:
        return None
    FRESH['left'] -= 1
    here = os.path.dirname(os.path.dirname(os.path.abspath(__file__)))
    try:
        r = subprocess.run([sys.executable, '-c', _FRESH_CODE], stdout=subprocess.PIPE, stderr=subprocess.PIPE,
                           input=json.dumps({'verif': here, 'repo': ctx.repo, 'history': hist}).encode(), timeout=120)
    except Exception:
        return None
    for line in r.stdout.decode('utf-8', 'replace').split('\n'):
        if line.startswith('FRESH-RESULT '):
            return any(x[0] == k for x in json.loads(line[len('FRESH-RESULT '):]))
    return None


_SEARCH_CODE = (
    "import sys, json, os\n"
    "d = json.load(sys.stdin)\n"
    "sys.path.insert(0, d['verif']); os.chdir(d['verif'])\n"
    "from vlib import ctx as ctxmod\n"
    "ctxmod.use_repo(d['repo'])\n"
    "from harness import c04\n"
    "c = ctxmod.Ctx('C04', d['tier'], d['seed'], d['repo'])\n"
    "c.model_available = False\n"
    "c04.FRESH.update(left=c04.FRESH_BUDGET, keys=set(), tries={})\n"
    "B = c04.Batch(c)\n"
    "c04.stream_connections(c, B, only_random=True)\n"
    "B.flush()\n"
    "out = [v for v in c.violations if v['key'] in c04.FRESH['keys'] and 'NOT reproduced' not in v['what']]\n"
    "print('SEARCH-RESULT ' + json.dumps([{a: v[a] for a in ('key', 'what', 'input', 'observed', 'expected')} "
    "for v in out], default=repr))\n")


def fresh_stream_search(ctx):
    """Nothing of what failed in this process could be reproduced from its own input in a fresh process: the process
    was already carrying state when the harness started (the table translators probe the same code before).  Then the
    stream `connections-interleaved` is run once more in a FRESH interpreter, where the first failing history IS its own
    reproducer.  -> the reproduced violations found there."""
    import json
    import os
    import subprocess
    import sys
    here = os.path.dirname(os.path.dirname(os.path.abspath(__file__)))
    try:
        r = subprocess.run([sys.executable, '-c', _SEARCH_CODE], stdout=subprocess.PIPE, stderr=subprocess.PIPE,
                           input=json.dumps({'verif': here, 'repo': ctx.repo, 'tier': 'quick',
                                             'seed': ctx.seed}).encode(), timeout=300)
    except Exception:
        return []
    for line in r.stdout.decode('utf-8', 'replace').split('\n'):
        if line.startswith('SEARCH-RESULT '):
            return json.loads(line[len('SEARCH-RESULT '):])
    return []


def convertible(sc):
    return (sc.get('mode') == 'multi' or not (sc.get('nest') or sc.get('raise_at') is not None or '_reads' in sc
                                              or 'compact_huge' in sc or sum(len(r) for r in sc['reads']) > 400000))


def as_history(sc):
    """A single-connection scenario as a history of one connection."""
    if sc.get('mode') == 'multi':
        return sc
    spec = {a: b for a, b in sc.items() if a not in ('reads', 'compact')}
    fds = spec.pop('fds', None) or []
    return {'mode': 'multi', 'family': 'sequence', 'conns': [spec],
            'events': [['open', 0]] + [['fd', 0, f] for f in fds] + [['read', 0, r] for r in sc['reads']]}


def concat_histories(hs):
    """Histories one after the other in one process.  -> (history, offset of the last one's connections)"""
    conns, events, off = [], [], 0
    for h in hs:
        off = len(conns)
        conns += h['conns']
        events += [[ev[0], ev[1] + off] + list(ev[2:]) for ev in h['events']]
    return {'mode': 'multi', 'family': 'sequence', 'conns': conns, 'events': events}, off


UNFINISHED = ('the fresh-process confirmation did not finish (budget of fresh runs used up, or a fresh run itself failed): '
              'the finding keeps the name it got in this process')


def minimise_fresh(ctx, hist, k):
    """Every candidate is RUN in a fresh interpreter; a run has THREE outcomes - True (connection k fails there),
    False (it does not), None (unknown: no budget left / the run itself failed).  A connection is left out only on True.
    First the failing connection with ONE other (the latest first), then greedily the remaining others one at a time,
    then the events behind the failing connection's last one.
    -> (history, k, alone): alone = the outcome of the failing connection run WITHOUT any other connection
    (True: it fails alone - then the history returned IS that single connection; False: confirmed to pass alone;
    None: unknown)."""
    cur, ck = hist, k
    if len(cur['conns']) > 2:
        for j in sorted((i for i in range(len(cur['conns'])) if i != ck), reverse=True)[:5]:
            h, ren = drop_connections(cur, [j, ck])
            if fresh_fails(ctx, h, ren[ck]) is True:
                cur, ck = h, ren[ck]
                break
    seen_alone = 'not-run'
    for _ in range(min(len(cur['conns']), 5)):
        for cand in sorted((i for i in range(len(cur['conns'])) if i != ck), reverse=True):
            h, ren = drop_connections(cur, [i for i in range(len(cur['conns'])) if i != cand])
            r = fresh_fails(ctx, h, ren[ck])
            if len(h['conns']) == 1:
                seen_alone = r               # this candidate WAS the failing connection without any other
            if r is True:
                cur, ck = h, ren[ck]
                break
        else:
            break
    if len(cur['conns']) == 1:
        alone = True
    elif len(cur['conns']) == 2 and seen_alone != 'not-run':
        alone = seen_alone                   # already run (False or None), not run twice
    else:
        # the claim "passes without the others" is made only when THIS run was made and said so
        h, ren = drop_connections(cur, [ck])
        alone = fresh_fails(ctx, h, ren[ck])
        if alone is True:
            cur, ck = h, ren[ck]
    last = max((n for n, ev in enumerate(cur['events']) if ev[1] == ck), default=len(cur['events']) - 1)
    if last + 1 < len(cur['events']):
        h = dict(cur, events=cur['events'][:last + 1])
        if fresh_fails(ctx, h, ck) is True:
            cur = h
    return cur, ck, alone


def locate(ctx, hist, k, key, earlier):
    """What reproduces the failure of connection k of `hist` (found in this process) from a fresh process?
    -> (key, history, k, remark).  `earlier` = the scenarios that ran just before it in this process.
    At most three attempts per key and FRESH_BUDGET fresh runs per check; a key is settled once it was reproduced.
    Every fresh run has three outcomes (reproduces / does not reproduce / unknown); the finding is renamed
    `delivery-depends-on-other-connection` ONLY when both halves were observed: it fails with the other connection(s)
    (True) and the failing connection alone does not (False).  On unknown the original key stays and the text says so."""
    if FRESH['left'] <= 0 and hist.get('located') and len(hist['conns']) > 1:
        return 'delivery-depends-on-other-connection', hist, k, None       # the replay of a located history
    tries = FRESH['tries'].get(key, 0)
    if key in FRESH['keys'] or tries >= 3 or FRESH['left'] <= 0:
        return key, hist, k, None
    FRESH['tries'][key] = tries + 1
    r = fresh_fails(ctx, hist, k)
    if r is None:
        return key, hist, k, UNFINISHED
    remark = None
    if r is False:
        # not from this input alone: state left behind by the scenarios before it?
        earlier = [as_history(e) for e in earlier[-3:] if convertible(e)]
        big, off = concat_histories(earlier + [hist])
        rb = fresh_fails(ctx, big, k + off) if earlier else False
        if rb is None:
            return key, hist, k, ('NOT reproduced from this input alone in a fresh process; ' + UNFINISHED)
        if rb is False:
            return key, hist, k, ('NOT reproduced from this input alone in a fresh process (nor behind the %d scenarios '
                                  'that ran before it): it depends on what earlier scenarios of the run left in the '
                                  'process' % len(earlier))
        hist, k = big, k + off
    FRESH['keys'].add(key)                 # reproduced in a fresh process (from `hist` as it is now)
    small, sk, alone = minimise_fresh(ctx, hist, k)
    if len(small['conns']) > 1 and alone is False:
        FRESH['keys'].add('delivery-depends-on-other-connection')
        return ('delivery-depends-on-other-connection', dict(small, located=True), sk,
                'fails in a fresh process with the other connection(s) of this history, passes without them')
    if len(small['conns']) > 1:
        # alone is None: whether the failing connection fails without the others was never observed
        return key, small, sk, ('reproduced in a fresh process from this history; whether the failing connection alone '
                                'fails too is unknown - ' + UNFINISHED)
    return key, small, sk, remark


def report_history(ctx, stream, sc, obs_list, out, k_item, oracle, earlier=None):
    n_ev = len(sc['events'])
    total = sum(len(ev[2]) for ev in sc['events'] if ev[0] == 'read')
    ctx.case(stream, sample=(sc if total <= 1200 else {'mode': 'multi', 'family': sc.get('family'),
                                                       'connections': len(sc['conns']), 'events': n_ev}),
             nontrivial=any(o and o['effects'] for o in obs_list))
    ctx.stat('%s:family=%s' % (stream, sc.get('family')))
    ctx.stat('%s:connections=%d' % (stream, len(sc['conns'])))
    ctx.stat('%s:events=%s' % (stream, bucket(n_ev)))
    for key_, v in (sc.get('stats') or {}).items():
        ctx.stat('%s:%s=%s' % (stream, key_, v))
    joint = {}
    if out is not None and (k_item, 'H') in out:
        _, included = history_model_line(sc, obs_list)
        parts = out[(k_item, 'H')].split(' ;; ')
        if len(parts) == len(included):
            joint = dict(zip(included, parts))
        else:
            ctx.disagree(stream, sc, clip(out[(k_item, 'H')]), 'a history of %d connections' % len(included))
    for k, csc, o in history_parts(sc, obs_list):
        ctx.stat('%s:connection-mode=%s' % (stream, csc['mode']))
        ctx.stat('%s:delivered-per-connection=%s' % (stream, bucket(len(o['raws']))))
        if o['crashed']:
            ctx.stat('%s:exception=%s' % (stream, o['crashed']))
        if refused_by_authenticator(csc, o['authenticated'], o['effects'], o['script']):
            ctx.stat('%s:not-authenticated(S3 only)' % stream)
        if out is not None and k in joint:
            compare_model(ctx, stream, dict(sc, disagreeing_connection=k, model='H'),
                          {a: b for a, b in csc.items() if a != 'parse'}, o, joint[k])
        if out is not None and (k_item, k) in out:
            compare_model(ctx, stream, dict(sc, disagreeing_connection=k, model='P'), csc, o, out[(k_item, k)])
    if not oracle:
        return
    for k, key, what, csc, o in judge_history(ctx, sc, obs_list):
        key2, small, sk, remark = locate(ctx, sc, k, key, earlier or [])
        what = 'connection %d of a history of %d connection(s) in one process (%s): %s%s' % (
            sk, len(small['conns']), sc.get('family'), what, '; ' + remark if remark else '')
        ctx.violation(key2, what, inp=dict(small, failing_connection=sk),
                      observed={'connection': sk, 'delivered_raw': [clip(r.hex()) for r in o['raws']][:20],
                                'n_delivered': len(o['raws']), 'exception': o['crashed'],
                                'reads_delivered_to_it': len(o['fed'])},
                      expected={'n_sent': len(csc['sent']),
                                'rule': 'every connection delivers exactly the messages sent on it, in order'})


def clip(s, n=4000):
    return s if len(s) <= n else s[:n] + '...(%d chars)' % len(s)


def bucket(n):
    for b in (0, 1, 2, 3, 5, 10, 50, 200, 1000, 10000):
        if n <= b:
            return '<=%d' % b
    return '>10000'


def shrink_sc(sc):
    """Scenarios are reported as they are; very large ones keep their structure in a compact form."""
    if 'compact_huge' in sc:
        return {'mode': sc['mode'], 'compact_huge': sc['compact_huge']}
    tot = sum(len(r) for r in sc['reads'])
    if tot <= 20000:
        return sc
    d = dict(sc)
    if 'compact' in sc:
        d = {'mode': sc['mode'], 'compact': sc['compact']}
    return d


def huge_scenario(size, partition):
    """One message of `size` bytes (a method return with one long string) followed by two small ones, under
    partition 0 (everything in one read), 1 (cut at the end of the big message), 2 (the read that completes the
    big message also carries the following ones).  Kept as bytes; no model run (the model has no size limit)."""
    _, message, _, _ = _mods()
    probe = message.MethodReturnMessage(1, body=['a' * 8], signature='s')
    m = message.MethodReturnMessage(1, body=['a' * (size - (len(probe.rawMessage) - 8))], signature='s')
    small1 = message.MethodReturnMessage(2573, body=['x\r\ny'], signature='s')
    small2 = message.MethodReturnMessage(3, body=[7], signature='u')
    sent = [m.rawMessage, small1.rawMessage, small2.rawMessage]
    assert len(sent[0]) == size, (len(sent[0]), size)
    stream = b''.join(sent)
    reads = [[stream], [stream[:size], stream[size:]], [stream[:size - 100], stream[size - 100:]]][partition]
    return {'mode': 'binary', 'compact_huge': {'size': size, 'partition': partition}, '_reads': reads,
            '_sent': sent, 'reads': [], 'sent': [], 'no_model': True}


def expand(sc):
    """Inverse of the compact form used for huge coalesced reads."""
    if 'compact_huge' in sc and '_reads' not in sc:
        return huge_scenario(sc['compact_huge']['size'], sc['compact_huge']['partition'])
    if 'compact' in sc and 'reads' not in sc:
        c = sc['compact']
        msgs = [bytes.fromhex(h) for h in c['messages']]
        raws = [msgs[i % len(msgs)] for i in range(c['count'])]
        stream = b''.join(raws)
        return {'mode': sc['mode'], 'reads': [stream.hex()], 'sent': [r.hex() for r in raws], 'compact': c}
    return sc


# --------------------------------------------------------------------------------------- streams
def mk_binary(raws, reads, **kw):
    d = {'mode': 'binary', 'reads': [r.hex() for r in reads], 'sent': [r.hex() for r in raws]}
    d.update(kw)
    return d


def small_message(rng, big, limit=40):
    for _ in range(500):
        raw, b, m = gen_message(rng, short=True, kinds=('ret',), big=big)
        if len(raw) <= limit:
            return raw
    raise RuntimeError('no message of at most %d bytes could be generated' % limit)


def stream_binary_cuts(ctx, B):
    """Every single and double cut (empty reads included) of streams of THREE small messages whose byte
    orders alternate: cuts at message boundaries, inside the next fixed header, mixed byte orders in a read."""
    rng = ctx.rng
    n_streams = ctx.scale(quick=2, thorough=60)
    for s in range(n_streams):
        first_big = rng.random() < 0.5
        k = 3 if ctx.tier == 'quick' else rng.choice([3, 3, 4])
        raws = [small_message(rng, first_big if i % 2 == 0 else not first_big, 40 if ctx.tier == 'quick' else 48)
                for i in range(k)]
        stream = b''.join(raws)
        ctx.stat('binary-cuts:stream-len=%s' % bucket(len(stream)))
        ctx.stat('binary-cuts:messages-per-stream=%d' % len(raws))
        for pos in all_single_double_cuts(len(stream)):
            B.add('binary-cuts', mk_binary(raws, cut(stream, list(pos))))
    B.flush()


def stream_binary_random(ctx, B):
    rng = ctx.rng
    n = ctx.scale(quick=700, thorough=20000)
    for _ in range(n):
        k = rng.choice([1, 2, 3, 5, 8, 20])
        raws = [gen_message(rng, short=rng.random() < 0.5)[0] for _ in range(k)]
        stream = b''.join(raws)
        if rng.random() < 0.15:
            # an incomplete message at the end must stay buffered
            stream_cut = stream[:len(stream) - rng.randrange(1, len(raws[-1]))]
            reads = random_partition(rng, stream_cut)
            B.add('binary-random', mk_binary(raws[:-1], reads))
        else:
            B.add('binary-random', mk_binary(raws, random_partition(rng, stream)))
    B.flush()


def stream_binary_coalesced(ctx, B):
    rng = ctx.rng
    for count in ([1500, 5000] if ctx.tier == 'quick' else [1500, 5000, 50000]):
        msgs = [gen_message(rng, short=True)[0] for _ in range(7)]
        sc = expand({'mode': 'binary', 'compact': {'count': count, 'messages': [m.hex() for m in msgs]}})
        ctx.stat('binary-coalesced:messages=%d' % count)
        B.add('binary-coalesced', sc)
        B.flush()


def stream_binary_huge(ctx, B):
    """Thorough tier: one message of more than 1 MiB among small ones, cut inside it."""
    if ctx.tier != 'thorough':
        return
    rng = ctx.rng
    _, message, _, _ = _mods()
    m = message.MethodReturnMessage(1, body=[[7] * 1300000], signature='ay')
    m.serial = 9
    raws = [gen_message(rng, short=True)[0], serialize(m, True), gen_message(rng, short=True)[0]]
    stream = b''.join(raws)
    for reads in ([stream], cut(stream, [70000, 1200000]), cut(stream, [len(raws[0]) + 8, len(stream) - 30])):
        ctx.stat('binary-coalesced:message-over-1MiB')
        B.add('binary-coalesced', mk_binary(raws, reads))
        B.flush()


def stream_limit(ctx, B):
    """(quick and thorough) `limit-scaled`: MAX_MSG_LENGTH lowered to 4096 on the connection; messages up to
    that size followed by small ones, under every kind of partition - all of them within the limit, so all
    must be delivered whatever the cutting.  (thorough) one real message of 2**27 - 64 bytes followed by two
    small ones, under three partitions (0.5 GiB, a few seconds each; implementation and oracle only)."""
    rng = ctx.rng
    _, message, _, _ = _mods()
    LIM = 4096
    n = ctx.scale(quick=60, thorough=1500)
    for i in range(n):
        probe = message.MethodReturnMessage(1, body=['a' * 8], signature='s')
        size = rng.choice([LIM, LIM - 1, LIM - 8, LIM - 64, LIM - 500, 3000])
        m = message.MethodReturnMessage(1, body=['a' * (size - (len(probe.rawMessage) - 8))], signature='s')
        m.serial = rng.choice([1, 2573])
        big_first = rng.random() < 0.7
        smalls = [gen_message(rng, short=True)[0] for _ in range(rng.choice([1, 2, 5]))]
        raws = ([serialize(m, rng.random() < 0.5)] + smalls) if big_first else (smalls[:1] + [serialize(m, False)] + smalls[1:])
        stream = b''.join(raws)
        k = len(raws[0]) if big_first else len(raws[0]) + len(raws[1])
        for reads in ([stream], [stream[:k], stream[k:]], [stream[:k - 100], stream[k - 100:]],
                      random_partition(rng, stream)):
            B.add('limit-scaled', mk_binary(raws, reads, max_msg=LIM))
    # behind a handshake too (stub authenticator)
    for i in range(ctx.scale(quick=8, thorough=200)):
        m = message.MethodReturnMessage(1, body=['a' * (LIM - 100)], signature='s')
        raws = [serialize(m, False), gen_message(rng, short=True)[0]]
        hs = b'BEGIN\r\n'
        for reads in ([hs + b''.join(raws)], [hs, b''.join(raws)], [hs + raws[0][:-50], raws[0][-50:] + raws[1]]):
            B.add('limit-scaled', {'mode': 'stub-client', 'script': 's', 'reads': [r.hex() for r in reads],
                                   'sent': [r.hex() for r in raws], 'handshake': hs.hex(), 'max_msg': LIM})
    B.flush()
    if ctx.tier == 'thorough':
        for part in (0, 1, 2):
            ctx.stat('limit-scaled:real-2**27-64-byte-message')
            B.add('limit-scaled', huge_scenario(2 ** 27 - 64, part))
            B.flush()


def stream_reentrant(ctx, B):
    """Implementation-only schedules (the model assumes handlers do not re-enter): (a) the handler of message j
    feeds the next 1-3 reads of the same stream to dataReceived before it returns; (b) the handler of message j
    raises, the driver catches it as a transport would and delivers the rest.  Oracle: exactly the messages sent,
    each once, in the order in which their delivery started, identical content."""
    rng = ctx.rng
    n = ctx.scale(quick=500, thorough=12000)
    for _ in range(n):
        k = rng.choice([2, 3, 4, 6, 9])
        raws = [gen_message(rng, short=rng.random() < 0.6)[0] for _ in range(k)]
        stream = b''.join(raws)
        style = rng.randrange(4)
        if style == 0:
            # every message its own read
            reads = list(raws)
        elif style == 1:
            # cuts inside messages: the nested read completes the message whose header the outer call cached
            pos, cuts = 0, []
            for r in raws[:-1]:
                pos += len(r)
                cuts.append(pos + rng.choice([0, 1, 8, 15, 16, 17]))
            reads = cut(stream, [c for c in cuts if c < len(stream)])
        else:
            reads = [r for r in random_partition(rng, stream)]
        nest, raise_at = {}, None
        kind = rng.random()
        if kind < 0.7:
            for j in rng.sample(range(k), rng.choice([1, 1, 2])):
                nest[str(j)] = rng.choice([1, 1, 2, 3])
        if kind >= 0.5:
            raise_at = rng.randrange(k)
        sc = mk_binary(raws, reads, no_model=True, nest=nest, raise_at=raise_at)
        if rng.random() < 0.15:
            hs = b'BEGIN\r\n'
            sc = {'mode': 'stub-client', 'script': 's', 'reads': [(hs + reads[0]).hex()] + [r.hex() for r in reads[1:]],
                  'sent': [r.hex() for r in raws], 'handshake': hs.hex(), 'no_model': True, 'nest': nest,
                  'raise_at': raise_at}
        ctx.stat('reentrant-delivery:nested=%s raises=%s' % (bool(nest), raise_at is not None))
        B.add('reentrant-delivery', sc)
    B.flush()


def stream_binary_malformed(ctx, B):
    """Arbitrary bytes in binary mode: framing of garbage (correspondence only, no oracle)."""
    rng = ctx.rng
    n = ctx.scale(quick=300, thorough=6000)
    for _ in range(n):
        parts = []
        for _ in range(rng.randrange(1, 5)):
            first = rng.choice([108, 66, 0, 13, 255])
            big = first != 108
            bl = rng.choice([0, 1, 5, 13, 40, 2 ** 32 - 1, 300])
            hl = rng.choice([0, 1, 7, 8, 9, 13, 30])
            h = bytes([first]) + bytes(rng.randrange(256) for _ in range(3))
            h += struct.pack('>I' if big else '<I', bl) + bytes(rng.randrange(256) for _ in range(4))
            h += struct.pack('>I' if big else '<I', hl)
            tail = bytes(rng.choice([0, 13, 10, 108]) for _ in range(rng.randrange(0, 80)))
            parts.append(h + tail)
        stream = b''.join(parts)
        # framing of garbage: the harness keeps the framing going across messages that do not parse
        B.add('binary-malformed', mk_binary([], random_partition(rng, stream), swallow=True), oracle=False)
    B.flush()


def gen_line(rng):
    r = rng.random()
    if r < 0.05:
        return bytes(rng.choice([65, 13, 10]) for _ in range(rng.choice([MAX_AUTH - 1, MAX_AUTH, MAX_AUTH + 1,
                                                                            MAX_AUTH + 2, MAX_AUTH + 5])))
    n = rng.randrange(0, 12)
    return bytes(rng.choice([65, 66, 32, 13, 10, 0, 200]) for _ in range(n))


def stream_lines_scripted(ctx, B):
    rng = ctx.rng
    n = ctx.scale(quick=1200, thorough=25000)
    for _ in range(n):
        server = rng.random() < 0.5
        pieces = []
        for _ in range(rng.randrange(0, 6)):
            ln = gen_line(rng)
            pieces.append(ln + rng.choice([b'\r\n', b'\r\n', b'\r\n', b'\n', b'\r', b'']))
        stream = b''.join(pieces)
        if server:
            stream = bytes([rng.choice([0, 0, 0, 0, 0, 0, 0, 1])]) + stream
        nl = stream.count(b'\r\n') + 1
        script = ''.join(rng.choice('cccccccfs' if rng.random() < 0.6 else 'ccccf') for _ in range(nl))
        sent = []
        if 's' in script and rng.random() < 0.7:
            # message bytes after the point where the stub reports success cannot be predicted without
            # running the protocol; correspondence only
            stream += b''.join(gen_message(rng, short=True)[0] for _ in range(rng.randrange(0, 3)))
        reads = random_partition(rng, stream)
        if server:
            # a server indexes data[0] while it waits for the NUL byte: no empty reads there
            reads = [r for r in reads if r] or [stream]
        B.add('lines-scripted', {'mode': 'stub-server' if server else 'stub-client', 'script': script,
                                 'reads': [r.hex() for r in reads], 'sent': [],
                                 'linux': server and rng.random() < 0.5}, oracle=False)
    # the empty first read of a server: IndexError escapes
    B.add('lines-scripted', {'mode': 'stub-server', 'script': '', 'reads': [''], 'sent': []}, oracle=False)
    B.flush()


def handshake_for(rng, side):
    """-> (handshake bytes, number of lines)"""
    if side == 'real-client':
        lines = []
        for _ in range(rng.choice([0, 0, 1, 2])):
            lines.append(rng.choice([b'REJECTED EXTERNAL DBUS_COOKIE_SHA1 ANONYMOUS', b'ERROR', b'ERROR "x"']))
        lines.append(b'OK ' + ('%032x' % rng.getrandbits(128)).encode())
        return b''.join(l + b'\r\n' for l in lines)
    lines = []
    for _ in range(rng.choice([0, 0, 1, 2, 3])):
        lines.append(rng.choice([b'AUTH', b'AUTH KERBEROS_V4', b'ERROR', b'CANCEL']))
    lines.append(b'AUTH ANONYMOUS 747864627573')
    for _ in range(rng.choice([0, 0, 1])):
        lines.append(b'NEGOTIATE_UNIX_FD')
    lines.append(b'BEGIN')
    return b'\0' + b''.join(l + b'\r\n' for l in lines)


def handoff_partitions(rng, hs, rest, count):
    """Partitions of hs+rest that put the end of the handshake and message bytes into one read,
    plus ordinary random ones."""
    stream = hs + rest
    out = [[stream]]
    if rest:
        out.append([hs[:-2], hs[-2:] + rest])
        out.append([hs[:-1], hs[-1:] + rest])
        out.append([hs + rest[:1], rest[1:]])
        out.append([hs, rest])
    for _ in range(count):
        a = rng.randrange(max(1, len(hs) - 8), len(hs) + 1)
        b = rng.randrange(len(hs), len(stream) + 1)
        pre = random_partition(rng, stream[:a]) if a > 1 else [stream[:a]]
        post = random_partition(rng, stream[b:]) if b < len(stream) else []
        out.append([r for r in pre if r] + [stream[a:b]] + post)
        rp = random_partition(rng, stream)
        if rp and not rp[0]:
            rp = [r for r in rp if r]
        out.append(rp)
    return out


def stream_handoff_real(ctx, B, side):
    rng = ctx.rng
    name = 'handoff-' + side
    n = ctx.scale(quick=120, thorough=2500)
    for _ in range(n):
        hs = handshake_for(rng, side)
        k = rng.choice([0, 1, 1, 2, 3, 6])
        raws = [gen_message(rng, short=rng.random() < 0.6)[0] for _ in range(k)]
        rest = b''.join(raws)
        ctx.stat('%s:rest-has-crlf=%s' % (name, b'\r\n' in rest))
        for reads in handoff_partitions(rng, hs, rest, 3):
            mode = side
            if side == 'real-client' and rng.random() < 0.4:
                mode = 'real-clientconn'       # DBusClientConnection: connectionAuthenticated sends Hello
            B.add(name, {'mode': mode, 'reads': [r.hex() for r in reads], 'sent': [r.hex() for r in raws],
                         'handshake': hs.hex(), 'linux': side == 'real-server' and rng.random() < 0.5})
    B.flush()


def stream_handoff_cuts(ctx, B):
    """Every single and double cut of short handshake+message streams (both sides)."""
    rng = ctx.rng
    n = ctx.scale(quick=2, thorough=40)
    for i in range(n):
        side = 'real-client' if i % 2 == 0 else 'real-server'
        hs = (b'OK 0123456789abcdef0123456789abcdef\r\n' if side == 'real-client'
              else b'\0AUTH ANONYMOUS 747864627573\r\nBEGIN\r\n')
        raws = []
        for _ in range(3000):
            raw = gen_message(rng, short=True)[0]
            # several CR LF inside the message bytes: the old code cut them into several pieces
            if (raw.count(b'\r\n') >= 2 and len(raw) <= (48 if ctx.tier == 'quick' else 64)) if not raws \
                    else len(raw) <= 32:
                raws.append(raw)
                if len(raws) == (1 if (ctx.tier == 'quick' and side == 'real-server') else 2):
                    break
        rest = b''.join(raws)
        stream = hs + rest
        for pos in all_single_double_cuts(len(stream)):
            reads = cut(stream, list(pos))
            if side == 'real-server' and len(reads[0]) == 0:
                continue
            B.add('handoff-cuts', {'mode': side, 'reads': [r.hex() for r in reads],
                                   'sent': [r.hex() for r in raws], 'handshake': hs.hex()})
    B.flush()


def stream_handoff_bigtail(ctx, B):
    """The final handshake line in one read with MORE than MAX_AUTH_LENGTH + 1 bytes of message data after
    that read's last CR LF (one big message / many coalesced small ones): message bytes are never an
    over-long auth line."""
    rng = ctx.rng
    _, message, _, _ = _mods()
    sizes = [16300, 16386, 20000, 70000]
    for mode in ('stub-client', 'stub-server', 'real-client', 'real-server'):
        if mode == 'real-client':
            hs, script = b'OK 0123456789abcdef0123456789abcdef\r\n', ''
        elif mode == 'real-server':
            hs, script = b'\0AUTH ANONYMOUS 747864627573\r\nBEGIN\r\n', ''
        else:
            hs, script = (b'' if mode == 'stub-client' else b'\0') + b'AUTH X\r\nBEGIN\r\n', 'cs'
        for size in sizes:
            for kind in ('big', 'small', 'crlf-then-big'):
                if kind == 'small':
                    one = message.MethodReturnMessage(1, body=['abc'], signature='s')
                    one.serial = 1
                    raw1 = serialize(one, rng.random() < 0.5)
                    assert b'\r\n' not in raw1
                    raws = [raw1] * (size // len(raw1) + 1)
                else:
                    m = message.MethodReturnMessage(1, body=['a' * size], signature='s')
                    m.serial = 7
                    raws = [serialize(m, rng.random() < 0.5)]
                    if kind == 'crlf-then-big':
                        m0 = message.MethodReturnMessage(2573, body=['x\r\ny'], signature='s')
                        m0.serial = 2573
                        raws = [serialize(m0, False)] + raws
                rest = b''.join(raws)
                tail = len(rest) - (rest.rfind(b'\r\n') + 2 if b'\r\n' in rest else 0)
                ctx.stat('handoff-bigtail:tail-after-last-crlf=%s' % ('>16385' if tail > 16385 else '<=16385'))
                for reads in ([hs + rest], [hs[:-2], hs[-2:] + rest], [hs[:-1], hs[-1:] + rest[:-5], rest[-5:]]):
                    B.add('handoff-bigtail', {'mode': mode, 'script': script, 'reads': [r.hex() for r in reads],
                                              'sent': [r.hex() for r in raws], 'handshake': hs.hex()})
        B.flush()


def stream_handoff_stub(ctx, B):
    """Stub authenticator; the final handshake line also occurs EARLIER in the same read (hand-off by line
    number, not by value), lines repeat, empty lines."""
    rng = ctx.rng
    n = ctx.scale(quick=250, thorough=5000)
    for _ in range(n):
        server = rng.random() < 0.5
        alphabet = rng.choice([[b'BEGIN'], [b'A', b'BEGIN'], [b'', b'A'], [b'']])
        k = rng.choice([1, 2, 3, 4])
        lines = [rng.choice(alphabet) for _ in range(k)]
        lines.append(rng.choice(lines))               # the final line repeats an earlier one
        hs = (b'\0' if server else b'') + b''.join(l + b'\r\n' for l in lines)
        script = 'c' * (len(lines) - 1) + 's'
        raws = [gen_message(rng, short=True)[0] for _ in range(rng.choice([1, 2, 3]))]
        rest = b''.join(raws)
        for reads in handoff_partitions(rng, hs, rest, 1):
            if server:
                reads = [r for r in reads if r] or [hs + rest]
            B.add('handoff-stub', {'mode': 'stub-server' if server else 'stub-client', 'script': script,
                                   'reads': [r.hex() for r in reads], 'sent': [r.hex() for r in raws],
                                   'handshake': hs.hex(), 'linux': server and rng.random() < 0.5})
    B.flush()


def stream_binary_unparsable(ctx, B):
    """A message that frames but does not parse (unknown message type 9) among good ones: everything up to
    and including it is delivered and the parse error escapes dataReceived - in one read and cut up."""
    rng = ctx.rng
    n = ctx.scale(quick=150, thorough=3000)
    for _ in range(n):
        before = [gen_message(rng, short=True)[0] for _ in range(rng.choice([0, 1, 2, 4]))]
        after = [gen_message(rng, short=True)[0] for _ in range(rng.choice([1, 2]))]
        bad = bytearray(gen_message(rng, short=True)[0])
        bad[1] = 9
        raws = before + [bytes(bad)] + after
        stream = b''.join(raws)
        reads = [stream] if rng.random() < 0.5 else random_partition(rng, stream)
        B.add('binary-unparsable', mk_binary(raws, reads, bad_index=len(before)))
    B.flush()


# --------------------------------------------------------------------------------------- several connections, one process
HIST_MODES = ['stub-client'] * 4 + ['stub-server'] * 3 + ['real-client'] * 2 + ['real-clientconn'] + ['real-server'] * 2


def hist_handshake(rng, mode):
    if mode.startswith('stub'):
        lines = [rng.choice([b'AUTH X', b'DATA 00', b'']) for _ in range(rng.choice([0, 0, 1, 2]))] + [b'BEGIN']
        return ((b'\0' if mode == 'stub-server' else b'') + b''.join(l + b'\r\n' for l in lines),
                'c' * (len(lines) - 1) + 's')
    return handshake_for(rng, 'real-client' if mode == 'real-clientconn' else mode), ''


def hist_reads(rng, mode, hs, raws, style=None):
    """The reads of one connection of a history.  'three': every message needs three or more reads (fixed header,
    a continuation that does not complete it, the rest), so that the connection is in mid-message whenever another
    one is served; 'joined': the end of the handshake shares a read with the first message bytes."""
    stream = hs + b''.join(raws)
    style = style or rng.choice(['three', 'three', 'three', 'joined', 'random', 'per-message', 'whole'])
    if style == 'whole':
        reads = [stream]
    elif style == 'per-message':
        reads = [hs] + list(raws)
    elif style == 'random':
        reads = random_partition(rng, stream)
    else:
        cuts, pos = [], len(hs)
        if rng.random() < 0.5 and len(hs) > 2:
            cuts.append(rng.randrange(1, len(hs)))                   # inside a handshake line
        if style == 'three' and rng.random() < 0.6:
            cuts.append(len(hs))
        for r in raws:
            cuts.append(pos + 16 + rng.choice([0, 0, 0, 1]))         # just behind the fixed header
            if len(r) > 19:
                cuts.append(pos + rng.randrange(18, len(r)))         # a continuation that does not complete it
            if rng.random() < 0.6:
                cuts.append(pos + len(r))
            pos += len(r)
        reads = cut(stream, [c for c in cuts if 0 < c < len(stream)])
    reads = [r for r in reads if r] if mode.endswith('server') else reads
    return reads or [stream]


def fd_call(rng, nfds):
    """A method call that carries `nfds` descriptors (built with `oobFDs=[]`: indices from 0, header field 9)."""
    _, message, _, _ = _mods()
    if nfds == 1 and rng.random() < 0.6:
        return bytes(message.MethodCallMessage('/a', 'M', signature='h', body=[rng.randrange(3, 50)], oobFDs=[]).rawMessage)
    return bytes(message.MethodCallMessage('/a', 'M', signature='sah', oobFDs=[],
                                           body=['x', [rng.randrange(3, 50) for _ in range(nfds)]]).rawMessage)


def hist_plan(rng, k, mode=None, fate='full', with_fds=False, nmsg=None, style=None):
    """One connection of a history.  fate: 'full' (everything is delivered), 'lost' (the peer goes away in
    mid-stream), 'raise-drop' / 'raise-keep' (the handler of one message raises; the reactor drops the connection /
    the transport catches it and goes on), 'unparsable' (one message frames but does not parse).
    -> (spec, events of this connection)"""
    mode = mode or rng.choice(HIST_MODES)
    hs, script = hist_handshake(rng, mode)
    n = nmsg if nmsg is not None else rng.choice([1, 2, 2, 3, 4])
    raws, fds = [], []
    for _ in range(n):
        if with_fds and rng.random() < 0.6:
            q = rng.choice([1, 1, 2, 3])
            raws.append(fd_call(rng, q))
            fds += [100 * (k + 1) + len(fds) + i for i in range(q)]
        else:
            raws.append(gen_message(rng, short=rng.random() < 0.7)[0])
    spec = {'mode': mode, 'script': script, 'handshake': hs.hex(),
            'linux': mode.endswith('server') and rng.random() < 0.5, 'fate': fate}
    if with_fds:
        spec['judge_fds'] = True
    if rng.random() < 0.5:
        spec['parse'] = True                     # compared with the composed model (driver command P)
    sent = list(raws)
    if fate == 'unparsable':
        b = rng.randrange(n)
        bad = bytearray(gen_message(rng, short=True)[0])
        bad[1] = 9
        raws[b] = bytes(bad)
        sent = list(raws)
        spec['bad_index'] = b
    elif fate in ('raise-drop', 'raise-keep'):
        j = rng.randrange(n)
        spec.update(raise_at=j, after_raise=fate[6:], no_model=True)
        spec.pop('parse', None)
        if fate == 'raise-drop':
            sent = raws[:j + 1]
    if fate in ('unparsable', 'raise-drop', 'raise-keep'):
        style = style or rng.choice(['whole', 'whole', 'joined', 'random', 'three'])
    reads = hist_reads(rng, mode, hs, raws, style)
    ev = [['open', k]] + [['fd', k, f] for f in fds]
    if fate == 'lost':
        # the peer goes away: after r reads, preferably in mid-message / mid-line
        ends, pos = {len(hs)}, len(hs)
        for r in raws:
            pos += len(r)
            ends.add(pos)
        cum, acc = [], 0
        for r in reads:
            acc += len(r)
            cum.append(acc)
        mid = [i + 1 for i in range(len(reads) - 1) if cum[i] not in ends and cum[i] > 0]
        r_ = rng.choice(mid) if mid and rng.random() < 0.85 else rng.randrange(0, len(reads) + 1)
        got = cum[r_ - 1] if r_ else 0
        pos, sent = len(hs), []
        for r in raws:
            pos += len(r)
            if pos <= got:
                sent.append(r)
        ev += [['read', k, r.hex()] for r in reads[:r_]]
        if with_fds and rng.random() < 0.7:
            ev.append(['fd', k, 100 * (k + 1) + 90])       # a descriptor still queued when the connection goes
        ev.append(['lose', k])
        spec['lost_in_mid_stream'] = got not in ends
    else:
        ev += [['read', k, r.hex()] for r in reads]
        if fate == 'raise-keep':
            ev.append(['read', k, ''])           # what was buffered behind the failing message is framed by the next read
        if fate == 'full' and rng.random() < 0.3:
            ev.append(['lose', k])
    spec['sent'] = [r.hex() for r in sent]
    return spec, ev


def interleave(rng, seqs, after=None):
    """A random merge of the connections' event lists; `after[k] = j`: connection k is made only when all events of
    connection j are out (a connection that comes after another one was lost)."""
    after = after or {}
    ptr = {k: 0 for k in seqs}
    out = []
    while True:
        ready = [k for k in seqs if ptr[k] < len(seqs[k])
                 and (k not in after or ptr[after[k]] >= len(seqs[after[k]]))]
        if not ready:
            return out
        k = rng.choice(ready)
        for _ in range(rng.choice([1, 1, 1, 2, 3])):
            if ptr[k] < len(seqs[k]):
                out.append(seqs[k][ptr[k]])
                ptr[k] += 1


def history_stats(specs, events):
    """How often a read is delivered while ANOTHER live connection is in mid-message / mid-line (what a state leak
    between connections needs in order to show)."""
    ends, pos, live, n_mid, both = {}, {}, set(), 0, 0
    for k, sp in enumerate(specs):
        p = len(sp['handshake']) // 2
        e = {0, p}
        for h in sp['sent']:
            p += len(h) // 2
            e.add(p)
        ends[k] = e
    for ev in events:
        op, k = ev[0], ev[1]
        if op == 'open':
            live.add(k)
            pos[k] = 0
        elif op == 'lose':
            live.discard(k)
        elif op == 'read':
            others = [j for j in live if j != k and pos[j] not in ends[j]]
            if others:
                n_mid += 1
                if pos[k] not in ends[k]:
                    both += 1
            pos[k] += len(ev[2]) // 2
    return {'reads-while-another-connection-is-in-mid-message': bucket(n_mid),
            'reads-with-both-in-mid-message': bucket(both)}


def mk_history(family, specs, events):
    return {'mode': 'multi', 'family': family, 'conns': specs, 'events': events, 'stats': history_stats(specs, events)}


def all_merges(a, b):
    """Every interleaving of two event lists (each keeps its order)."""
    n = len(a) + len(b)
    for idx in itertools.combinations(range(n), len(a)):
        ia, ib, out, s_ = 0, 0, [], set(idx)
        for i in range(n):
            if i in s_:
                out.append(a[ia])
                ia += 1
            else:
                out.append(b[ib])
                ib += 1
        yield out


def stream_connections(ctx, B, only_random=False):
    """`connections-interleaved` (state-leak round 2026-09-30, STATE_AUDIT G3 / M1 / M2 / M5): HISTORIES over several
    connections of one process, every one made by `makeConnection` and brought into binary mode by its own handshake.
      interleaved        2-4 connections alive side by side (stub / real authenticators, client and server classes,
                         two of the SAME class among them), their reads merged at random; most messages need three
                         reads, so a connection is in mid-message (buffer, cached length, byte order set) while
                         another one is served; descriptors are queued through fileDescriptorReceived
      lost-then-new      a connection goes away in mid-message / mid-handshake-line / with a descriptor queued; a
                         new connection (usually the same class) is made afterwards; a third one lives through both
      raise-then-clean   on connection A the handler of a message raises, or a message does not parse, with further
                         messages behind it in the same read: A is dropped (or kept by a catching transport); the
                         connection that was in mid-message meanwhile and the one made afterwards must be clean
      all-merges         two short connections (same class / client + server): EVERY interleaving of their reads
      descriptor-shape   fd->A, connect B, fd->B, bytes->A, bytes->B, A lost with a descriptor queued, C connects
    Oracle (S4): the statement, per connection: exactly the messages sent ON THAT CONNECTION, each once, in order,
    identical content (descriptor values included).  S3: the model runs every connection's projection on a state of
    its own (`R` / `P`) - in the model connections share nothing (Properties/C04.lean `history_independent`)."""
    rng = ctx.rng
    name = 'connections-interleaved'
    n = ctx.scale(quick=420, thorough=9000)
    for _ in range(n):
        fam = rng.choice(['interleaved', 'interleaved', 'lost-then-new', 'lost-then-new', 'raise-then-clean'])
        with_fds = rng.random() < 0.35
        specs, seqs, after = [], {}, {}

        def add(**kw):
            k = len(specs)
            sp, ev = hist_plan(rng, k, with_fds=with_fds and kw.get('fate', 'full') in ('full', 'lost'), **kw)
            specs.append(sp)
            seqs[k] = ev
            return k
        if fam == 'interleaved':
            a = add()
            add(mode=specs[a]['mode'] if rng.random() < 0.5 else None)
            for _ in range(rng.choice([0, 0, 1, 2])):
                add(fate=rng.choice(['full', 'full', 'lost']))
        elif fam == 'lost-then-new':
            a = add(fate='lost', style=rng.choice(['three', 'three', 'joined', 'random']))
            if rng.random() < 0.6:
                add()
            c = add(mode=specs[a]['mode'] if rng.random() < 0.7 else None, style=rng.choice(['three', 'three', None]))
            after[c] = a
        else:
            a = add(fate=rng.choice(['raise-drop', 'raise-drop', 'raise-keep', 'unparsable']))
            add(mode=specs[a]['mode'] if rng.random() < 0.5 else None, style='three')
            if rng.random() < 0.6:
                c = add(mode=specs[a]['mode'] if rng.random() < 0.7 else None)
                after[c] = a
        B.add(name, mk_history(fam, specs, interleave(rng, seqs, after)))
    B.flush()
    if only_random:
        return
    # every interleaving of two short connections
    for i in range(ctx.scale(quick=3, thorough=40)):
        m0 = rng.choice(['stub-client', 'stub-server', 'real-client'])
        m1 = m0 if i % 2 == 0 else rng.choice(HIST_MODES)
        for _try in range(50):
            s0, e0 = hist_plan(rng, 0, mode=m0, nmsg=1, style='three')
            s1, e1 = hist_plan(rng, 1, mode=m1, nmsg=rng.choice([1, 2]), style='three')
            if len(e0) <= 5 and len(e1) <= 6:
                break
        else:
            continue
        s0['parse'] = True
        for ev in all_merges(e0[1:], e1[1:]):
            B.add(name, mk_history('all-merges', [s0, s1], [e0[0], e1[0]] + ev))
    B.flush()
    # the shape of STATE_AUDIT G3, spelled out
    for i in range(ctx.scale(quick=12, thorough=200)):
        mode = rng.choice(['stub-client', 'stub-server', 'real-server', 'real-client'])
        modes = [mode, mode if i % 3 else rng.choice(HIST_MODES), mode]
        plans = []
        for k in range(3):
            hs, script = hist_handshake(rng, modes[k])
            raws = [fd_call(rng, 1), gen_message(rng, short=True)[0]]
            if rng.random() < 0.5:
                raws.reverse()
            plans.append((hs, script, raws))
        specs, reads = [], []
        for k, (hs, script, raws) in enumerate(plans):
            sent = raws if k else []
            specs.append({'mode': modes[k], 'script': script, 'handshake': hs.hex(), 'judge_fds': True, 'parse': True,
                          'fate': 'lost' if k == 0 else 'full', 'linux': False})
            reads.append(hist_reads(rng, modes[k], hs, raws, 'three'))
        # A: the handshake and the first header only, then lost in mid-message with both descriptors queued
        hsA = len(plans[0][0])
        ra, acc = [], 0
        for r in reads[0]:
            ra.append(r)
            acc += len(r)
            if acc > hsA + 16:
                break
        done_a = [m for m in plans[0][2][:1] if acc >= hsA + len(m)]
        specs[0]['sent'] = [m.hex() for m in done_a]
        specs[1]['sent'] = [m.hex() for m in plans[1][2]]
        specs[2]['sent'] = [m.hex() for m in plans[2][2]]
        ev = [['open', 0], ['fd', 0, 101], ['open', 1], ['fd', 1, 201]]
        rb = reads[1]
        hb = max(1, len(rb) // 2)
        ev += [['read', 0, r.hex()] for r in ra[:1]] + [['read', 1, r.hex()] for r in rb[:hb]]
        ev += [['read', 0, r.hex()] for r in ra[1:]] + [['fd', 0, 102], ['lose', 0], ['open', 2], ['fd', 2, 301]]
        rc = reads[2]
        hc = max(1, len(rc) // 2)
        ev += [['read', 2, r.hex()] for r in rc[:hc]] + [['read', 1, r.hex()] for r in rb[hb:]]
        ev += [['read', 2, r.hex()] for r in rc[hc:]]
        B.add(name, mk_history('descriptor-shape', specs, ev))
    B.flush()


# --------------------------------------------------------------------------------------- the seam C04 / C03
BODIES2 = [
    ('b', lambda rng, S, I: [rng.random() < 0.5]),
    ('d', lambda rng, S, I: [rng.choice([0.0, -0.0, 1.5, -2.25e10, 3.141592653589793, 1e-300])]),
    ('o', lambda rng, S, I: [rng.choice(['/', '/a/b', '/org/example/Obj_1'])]),
    ('g', lambda rng, S, I: [rng.choice(['', 'i', 'a{sv}', '(is)as'])]),
    ('ynqt', lambda rng, S, I: [I(0, 255), I(-2 ** 15, 2 ** 15 - 1), I(0, 2 ** 16 - 1), I(0, 2 ** 64 - 1)]),
    ('a(si)', lambda rng, S, I: [[[S(), I(-2 ** 31, 2 ** 31 - 1)] for _ in range(rng.randrange(0, 3))]]),
    ('aai', lambda rng, S, I: [[[I(-2 ** 31, 2 ** 31 - 1) for _ in range(rng.randrange(0, 3))]
                                for _ in range(rng.randrange(0, 3))]]),
    ('(i(ss))y', lambda rng, S, I: [[I(-2 ** 31, 2 ** 31 - 1), [S(), S()]], I(0, 255)]),
    ('a{us}', lambda rng, S, I: [{I(0, 2 ** 32 - 1): S() for _ in range(rng.randrange(0, 3))}]),
    ('sas', lambda rng, S, I: [S(), [S() for _ in range(rng.randrange(0, 3))]]),
    ('xd', lambda rng, S, I: [I(-2 ** 63, 2 ** 63 - 1), rng.choice([2.5, -1e100])]),
]


def gen_body2(rng, short):
    """Bodies of the stream parsed-after-framing: the 13 shapes of gen_body plus booleans, doubles, object paths,
    signatures, every integer width, nested containers."""
    if rng.random() < 0.55:
        return gen_body(rng, short)
    sig, mk = rng.choice(BODIES2)
    return sig, mk(rng, lambda: gen_str(rng, short), lambda lo, hi: gen_int(rng, lo, hi))


def gen_constructed(rng, short=False):
    """One message built with the REAL constructor: any of the four classes, every optional argument present or
    absent at random, a body or none.  -> (raw bytes, big?, class name, signature, canonical form of the constructed
    object or None).
    70 %: the constructor's own `rawMessage` (little endian, serial from the process-wide counter);
    30 %: the same object re-serialised by the reference serializer with a chosen serial, either byte order."""
    marshal, message, _, _ = _mods()
    kind = rng.choice(['call', 'ret', 'err', 'sig'])
    sig, body = gen_body2(rng, short)
    opt = lambda *c: rng.choice((None,) + c)
    dest = opt('a.b', ':1.2', 'org.example.Dest')
    rs = gen_int(rng, 1, 2 ** 32 - 1)
    if kind == 'call':
        m = message.MethodCallMessage(rng.choice(['/', '/a', '/org/example/Obj']), rng.choice(['M', 'Get', 'Do_It2']),
                                      interface=opt('a.b', 'org.example.Iface'), destination=dest,
                                      signature=sig, body=body, expectReply=rng.random() < 0.6,
                                      autoStart=rng.random() < 0.6)
    elif kind == 'ret':
        m = message.MethodReturnMessage(rs, body=body, destination=dest, signature=sig)
    elif kind == 'err':
        m = message.ErrorMessage(rng.choice(['a.b', 'org.freedesktop.DBus.Error.Failed']), rs, destination=dest,
                                 signature=sig, body=body, sender=opt(':1.7', 'org.example.Sender'))
    else:
        m = message.SignalMessage(rng.choice(['/', '/a/b']), rng.choice(['M', 'Changed']),
                                  rng.choice(['a.b', 'org.example.Iface']), destination=dest, signature=sig, body=body)
    if rng.random() < 0.7:
        # the constructor's own bytes; the constructed OBJECT is kept (canonical form) for the oracle
        return bytes(m.rawMessage), False, kind, sig, canon_msg(m)
    m.serial = gen_int(rng, 1, 2 ** 32 - 1)
    big = rng.random() < 0.6
    return serialize(m, big), big, kind, sig, None


def header_cuts(rng, raws):
    """One cut INSIDE the 16-byte fixed header of every message (positions 1..15 of each)."""
    pos, cuts = 0, []
    for r in raws:
        cuts.append(pos + rng.randrange(1, 16))
        pos += len(r)
    return cuts


def stream_parsed_after_framing(ctx, B):
    """The seam C04/C03: constructed messages (all four classes, random optional fields, bodies), concatenated, cut
    at random points, inside every fixed header, and - short streams - at every byte; binary mode and behind a stub
    handshake.  S3: the composed model `receive` (driver command P) against what the real hooks are handed.
    S4: the usual oracle (delivered == sent, raw and parsed, in order)."""
    rng = ctx.rng
    name = 'parsed-after-framing'

    def add(raws, reads, meta, hs=None, constructed=None):
        sc = mk_binary(raws, reads, parse=True)
        if hs is not None:
            sc = {'mode': 'stub-server' if hs[:1] == b'\0' else 'stub-client', 'script': 's',
                  'reads': [r.hex() for r in reads],
                  'sent': [r.hex() for r in raws], 'handshake': hs.hex(), 'parse': True}
        if constructed and any(c is not None for c in constructed):
            sc['constructed'] = constructed
            ctx.stat('%s:compared-with-constructed-objects=%d' % (name, sum(c is not None for c in constructed)))
        stream = b''.join(raws)
        # does a read boundary fall strictly inside a fixed header?
        off = len(hs) if hs else 0
        starts, pos = [], off
        for r in raws:
            starts.append(pos)
            pos += len(r)
        bounds, q = set(), 0
        for r in reads[:-1]:
            q += len(r)
            bounds.add(q)
        inside = any(0 < b - st < 16 for b in bounds for st in starts)
        ctx.stat('%s:cut-inside-fixed-header=%s' % (name, inside))
        ctx.stat('%s:behind-handshake=%s' % (name, 'no' if hs is None else ('server' if hs[:1] == b'\0' else 'client')))
        for k, sg, big in meta:
            ctx.stat('%s:class=%s' % (name, k))
            ctx.stat('%s:signature=%s' % (name, sg if sg is not None else 'None'))
            ctx.stat('%s:big-endian=%s' % (name, big))
        B.add(name, sc)

    n = ctx.scale(quick=220, thorough=6000)
    for _ in range(n):
        k = rng.choice([1, 2, 3, 5, 8])
        built = [gen_constructed(rng, short=rng.random() < 0.5) for _ in range(k)]
        raws = [b[0] for b in built]
        meta = [(b[2], b[3], b[1]) for b in built]
        stream = b''.join(raws)
        hs = rng.choice([b'BEGIN\r\n', b'\0BEGIN\r\n']) if rng.random() < 0.2 else None
        pre = hs or b''
        full = pre + stream
        parts = [random_partition(rng, full), random_partition(rng, full),
                 cut(full, [len(pre) + c for c in header_cuts(rng, raws)])]
        if rng.random() < 0.3:
            parts.append([full[i:i + 1] for i in range(len(full))])          # byte by byte
        for reads in parts:
            if hs is not None:
                # a server indexes data[0] while it waits for its NUL byte: no empty read before it
                reads = [r for r in reads if r] or [full]
            add(raws, reads, meta, hs, constructed=[b[4] for b in built])
    # short streams: EVERY single cut position (empty first / last read included)
    for _ in range(ctx.scale(quick=5, thorough=60)):
        for _try in range(200):
            built = [gen_constructed(rng, short=True) for _ in range(2)]
            if sum(len(b[0]) for b in built) <= 170:
                break
        raws = [b[0] for b in built]
        meta = [(b[2], b[3], b[1]) for b in built]
        stream = b''.join(raws)
        ctx.stat('%s:every-byte-stream-len=%s' % (name, bucket(len(stream))))
        for i in range(len(stream) + 1):
            add(raws, cut(stream, [i]), meta, constructed=[b[4] for b in built])
    B.flush()
    seam_errors(ctx, B, name)
    seam_descriptors(ctx, B, name)
    B.flush()


def seam_errors(ctx, B, name):
    """A frame that does not parse among good ones, through the COMPOSED model (command P): the exception name, the
    effects up to and including the failing frame, `!`, the later frames of that read left in the buffer and the end
    of the connection are compared with `recvRun`; the oracle judges up to and including the failing frame."""
    rng = ctx.rng
    for _ in range(ctx.scale(quick=60, thorough=1500)):
        before = [gen_constructed(rng, short=True)[0] for _ in range(rng.choice([0, 1, 2, 3]))]
        after = [gen_constructed(rng, short=True)[0] for _ in range(rng.choice([1, 2, 3]))]
        bad = bytearray(gen_constructed(rng, short=True)[0])
        kind = rng.choice(['type', 'type', 'body-missing'])
        if kind == 'type':
            bad[1] = rng.choice([9, 0, 5, 200])                       # unknown message type
        elif kind == 'body-missing':
            # the body is dropped but still announced: the frame swallows the first bytes of what follows and the
            # frames behind it are misaligned - whatever parseMessage makes of that (MarshallingError, struct.error,
            # UnicodeDecodeError, or a message) must be the same in model and code (S3 only)
            import struct as _st
            fmt = '<I' if bad[:1] == b'l' else '>I'
            (alen,) = _st.unpack(fmt, bytes(bad[12:16]))
            bad = bytearray(bad[:16 + alen + (-(16 + alen) % 8)])      # drop the body, announce it still
        raws = before + [bytes(bad)] + after
        stream = b''.join(raws)
        for reads in ([stream], random_partition(rng, stream)):
            sc = mk_binary(raws, reads, bad_index=len(before), parse=True)
            ctx.stat('%s:unparsable-frame=%s' % (name, kind))
            B.add(name, sc, oracle=(kind == 'type'))


def seam_descriptors(ctx, B, name):
    """The SECOND argument of parseMessage (`self._receivedFDs`) and the slice `_receivedFDs[m.unix_fds:]`: method
    calls with descriptors in the body (`h`, `ah`; built with `oobFDs=[]`, so they carry a unix_fds header), a receiver
    whose descriptor list is pre-loaded - sometimes too short.  Correspondence only (the evolution of the list over a
    run is C05's property): bodies show WHICH descriptors parseMessage was given, `fds=` the list afterwards."""
    rng = ctx.rng
    _, message, _, _ = _mods()
    for _ in range(ctx.scale(quick=40, thorough=1000)):
        raws, need = [], 0
        for _ in range(rng.choice([1, 2, 3, 4])):
            r = rng.random()
            if r < 0.4:
                m = message.MethodCallMessage('/a', 'M', signature='h', body=[rng.randrange(3, 50)], oobFDs=[])
                need += 1
            elif r < 0.7:
                k = rng.randrange(0, 4)
                m = message.MethodCallMessage('/a', 'M', signature='sah', oobFDs=[],
                                              body=['x', [rng.randrange(3, 50) for _ in range(k)]])
                need += k
            else:
                m = message.SignalMessage('/a', 'S', 'a.b', signature='u', body=[rng.randrange(9)])
            raws.append(bytes(m.rawMessage))
        have = need + rng.choice([0, 0, 0, 1, 3, -1, -2])
        fds = [100 + i for i in range(max(0, have))]
        stream = b''.join(raws)
        for reads in ([stream], random_partition(rng, stream)):
            sc = mk_binary(raws, reads, parse=True, fds=fds)
            ctx.stat('%s:preloaded-descriptors=%s' % (name, 'enough' if have >= need else 'too-few'))
            B.add(name, sc, oracle=False)


# --------------------------------------------------------------------------------------- entry points
def run_one(ctx, stream, sc, oracle=True):
    B = Batch(ctx)
    B.add(stream, expand(sc), oracle=oracle)
    B.flush()


def run(ctx):
    SKIPPED.clear()
    _MISSING.clear()
    _NOTED.clear()
    FRESH.update(left=FRESH_BUDGET, keys=set(), tries={})
    del SERIALIZER_NOTES[:]
    import logging  # noqa
    from twisted.python import log as tlog  # noqa  (log.msg without observers is silent)
    for name, data in ctx.corpus():
        sc = data.get('input', data)
        run_one(ctx, data.get('stream', 'binary-random'), sc, oracle=data.get('oracle', True))
    B = Batch(ctx)
    errors = []

    def guarded(fn, *a):
        # an exception of the harness itself in one stream must not hide the other streams
        try:
            fn(ctx, B, *a)
            B.flush()
        except Exception:
            import traceback
            errors.append('%s: %s' % (fn.__name__, traceback.format_exc()[-1500:]))
            B.items = []
    guarded(stream_connections)
    guarded(stream_binary_coalesced)
    guarded(stream_binary_huge)
    guarded(stream_binary_cuts)
    guarded(stream_binary_random)
    guarded(stream_binary_malformed)
    guarded(stream_lines_scripted)
    guarded(stream_handoff_real, 'real-client')
    guarded(stream_handoff_real, 'real-server')
    guarded(stream_handoff_cuts)
    guarded(stream_handoff_bigtail)
    guarded(stream_handoff_stub)
    guarded(stream_binary_unparsable)
    guarded(stream_limit)
    guarded(stream_reentrant)
    guarded(stream_parsed_after_framing)
    if ctx.violations and not FRESH['keys']:
        # violations, but no input that reproduces one on its own: look for one in a fresh process
        found = fresh_stream_search(ctx)
        ctx.note('no violation of this run was reproduced from its own input in a fresh process; the stream '
                 'connections-interleaved run in a fresh process gave %d reproduced violation(s)' % len(found))
        for v in found:
            ctx.violation(v['key'], v['what'], inp=v['input'], observed=v['observed'], expected=v['expected'])
    for t in SERIALIZER_NOTES[:3]:
        ctx.note(t)
    for st, k in sorted(SKIPPED.items()):
        ctx.note('stream %s: %d scenarios skipped by the harness (it could not set them up: see the first note of the stream)' % (st, k))
    if SKIPPED and ctx.cases == 0:
        raise RuntimeError('no stream of C04 could run: %r' % (SKIPPED,))
    if errors:
        raise RuntimeError('harness fault in %d stream(s):\n%s' % (len(errors), '\n'.join(errors)))


def replay(ctx, data):
    sc = data.get('input', data)
    run_one(ctx, data.get('stream', 'replay'), sc, oracle=True)
