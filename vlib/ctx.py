"""Run context handed to every harness module (harness/cXX.py: run(ctx)).

A harness generates cases from ctx.rng, runs them on the real txdbus (imported from
ctx.repo) and on the Lean model (ctx.model), and reports through:

  ctx.case(stream, sample, nontrivial=True)   one explored case (counted; a few kept as samples)
  ctx.stat(key, n=1)                          input-distribution counters (go into the evidence)
  ctx.disagree(stream, inp, model, impl)      model and implementation differ (correspondence)
  ctx.violation(key, what, inp, ...)          the IMPLEMENTATION violates the property on `inp`
"""
import hashlib
import json
import os
import random
import subprocess
import sys
import time

VERIF = os.path.dirname(os.path.dirname(os.path.abspath(__file__)))
LEAN = os.path.join(VERIF, 'lean')


def canon(obj):
    return json.dumps(obj, sort_keys=True, default=repr)


class Ctx:
    def __init__(self, prop, tier, seed, repo, widen=False, budget_s=None):
        self.prop = prop
        self.tier = tier
        self.seed = seed
        self.repo = repo
        self.widen = widen
        self.rng = random.Random((seed, prop, 'widen' if widen else 'base').__repr__())
        self.t0 = time.time()
        self.budget_s = budget_s
        self.cases = 0
        self.by_stream = {}
        self.nontrivial = set()
        self.samples = []
        self.stats = {}
        self.disagreements = []
        self.violations = []
        self.notes = []
        self.model_calls = 0
        self.model_lines = 0
        self.model_available = os.path.exists(self.driver_path())
        self.exhaustive = False
        self.impl_traces = 0
        self.streams_run = set()

    # -- paths -----------------------------------------------------------------
    def driver_path(self):
        return os.path.join(LEAN, '.lake', 'build', 'bin', 'drv_' + self.prop.lower())

    def corpus_dir(self):
        return os.path.join(VERIF, 'corpus', self.prop)

    def corpus(self):
        """Minimised past disagreements / violations: list of (name, json-object); run these first."""
        d = self.corpus_dir()
        out = []
        if os.path.isdir(d):
            for fn in sorted(os.listdir(d)):
                if fn.endswith('.json'):
                    with open(os.path.join(d, fn)) as f:
                        out.append((fn, json.load(f)))
        return out

    # -- time ------------------------------------------------------------------
    def elapsed(self):
        return time.time() - self.t0

    def time_left(self):
        if self.budget_s is None:
            return 1e9
        return self.budget_s - self.elapsed()

    def scale(self, quick, thorough):
        """Pick a count by tier; the widened search (after a broken obligation) uses 3x."""
        n = quick if self.tier == 'quick' else thorough
        return n * 3 if self.widen else n

    # -- the Lean model --------------------------------------------------------
    def model(self, lines):
        """Feed `lines` (one operation each, no newlines inside) to the property's Lean driver;
        returns the list of output lines (same length), or None when the driver is not built."""
        if not self.model_available:
            return None
        lines = list(lines)
        for ln in lines:
            if '\n' in ln or '\r' in ln:
                raise ValueError('newline inside a driver line: %r' % (ln,))
        if not lines:
            return []
        p = subprocess.run([self.driver_path()], input=('\n'.join(lines) + '\n').encode('utf-8'),
                           stdout=subprocess.PIPE, stderr=subprocess.PIPE, timeout=1800)
        out = p.stdout.decode('utf-8', 'replace').split('\n')
        if out and out[-1] == '':
            out.pop()
        self.model_calls += 1
        self.model_lines += len(lines)
        if p.returncode != 0 or len(out) != len(lines):
            raise RuntimeError('driver %s failed: rc=%s, %d lines in, %d lines out, stderr=%s'
                               % (self.driver_path(), p.returncode, len(lines), len(out),
                                  p.stderr.decode('utf-8', 'replace')[:2000]))
        return out

    # -- reporting -------------------------------------------------------------
    def case(self, stream, sample=None, nontrivial=True, n=1):
        self.cases += n
        self.by_stream[stream] = self.by_stream.get(stream, 0) + n
        self.streams_run.add(stream)
        if sample is not None:
            c = canon(sample)
            if nontrivial:
                self.nontrivial.add(hashlib.sha1((stream + '|' + c).encode()).digest()[:10])
            k = sum(1 for s in self.samples if s['stream'] == stream)
            if k < 3:
                self.samples.append({'stream': stream, 'case': json.loads(c)})

    def stat(self, key, n=1):
        self.stats[key] = self.stats.get(key, 0) + n

    def impl_trace(self, n=1):
        self.impl_traces += n

    def note(self, text):
        self.notes.append(text)

    def disagree(self, stream, inp, model_out, impl_out, detail=None):
        if len(self.disagreements) < 50:
            self.disagreements.append({'stream': stream, 'input': inp, 'model': model_out,
                                       'impl': impl_out, 'detail': detail})
        else:
            self.stat('disagreements_beyond_50')

    def violation(self, key, what, inp, observed=None, expected=None, replay=None):
        """The implementation breaks the property on `inp`.  `key` names the failure narrowly
        (e.g. 'busname-trailing-dot'); known_findings.json matches on (property, key)."""
        for v in self.violations:
            if v['key'] == key:
                v['count'] += 1
                # keep the smallest input as the exemplar
                if len(canon(inp)) < len(canon(v['input'])):
                    v.update(input=inp, observed=observed, expected=expected, what=what)
                return
        self.violations.append({'key': key, 'what': what, 'input': inp, 'observed': observed,
                                'expected': expected, 'count': 1, 'replay': replay})


def use_repo(repo):
    """Make `import txdbus` resolve to <repo>/txdbus (the working tree under test)."""
    repo = os.path.abspath(repo)
    if sys.path[0] != repo:
        sys.path.insert(0, repo)
    for m in list(sys.modules):
        if m == 'txdbus' or m.startswith('txdbus.'):
            f = getattr(sys.modules[m], '__file__', '') or ''
            if not os.path.abspath(f).startswith(repo + os.sep):
                del sys.modules[m]
    import txdbus
    got = os.path.dirname(os.path.dirname(os.path.abspath(txdbus.__file__)))
    if got != repo:
        raise RuntimeError('txdbus imported from %s, wanted %s' % (got, repo))
