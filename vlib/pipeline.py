"""The check pipeline (DESIGN.md section 2.3), one property per invocation.

S0  regenerate lean/TxdbusModel/Gen/*.lean from the working tree of the repository
S1  lake build of the property's theorem module and of its driver (kernel check)
S2  audit: forbidden constructs in every Lean file the property depends on; axioms of
    every property theorem
S3  correspondence: Lean model vs the real txdbus on generated cases     } harness/cXX.py
S4  property oracle evaluated on the real txdbus for every generated case }
S5  verdict, evidence file, replay files
"""
import fcntl
import hashlib
import importlib
import json
import os
import re
import subprocess
import sys
import time
import traceback

from . import ctx as ctxmod

VERIF = ctxmod.VERIF
LEAN = ctxmod.LEAN
ALLOWED_AXIOMS = {'propext', 'Classical.choice', 'Quot.sound'}
FORBIDDEN = [r'\bsorry\b', r'\badmit\b', r'^\s*axiom\s', r'\bnative_decide\b', r'\bbv_decide\b',
             r'\bimplemented_by\b', r'\bunsafe\s', r'maxHeartbeats\s+0\b', r'\bextern\b',
             r'\bpartial\s+def\b']
# the I/O loop of the drivers is the only `partial def` allowed
PARTIAL_OK = {os.path.join('Driver', 'Common.lean')}

BASE_TRUSTED = [
    'Lean 4.33 kernel (lake build re-checks every theorem; leanchecker in the thorough tier)',
    'axioms of every property theorem audited per run: subset of {propext, Classical.choice, Quot.sound}',
    'tools/extract_tables.py + tools/tables/*.py (translator of tables from the source)',
    'the correspondence harness harness/*.py (generators, canonicalisation, Python<->model value mapping)',
]


def sh(cmd, cwd=None, timeout=3600, env=None):
    p = subprocess.run(cmd, cwd=cwd, stdout=subprocess.PIPE, stderr=subprocess.STDOUT, timeout=timeout, env=env)
    return p.returncode, p.stdout.decode('utf-8', 'replace')


class Lock:
    def __init__(self, path):
        self.path = path

    def __enter__(self):
        self.f = open(self.path, 'w')
        fcntl.flock(self.f, fcntl.LOCK_EX)
        return self

    def __exit__(self, *a):
        fcntl.flock(self.f, fcntl.LOCK_UN)
        self.f.close()


def lake_lock():
    return Lock(os.path.join(LEAN, '.lake-build.lock'))


# ---------------------------------------------------------------------------- S0
def regenerate_tables(repo):
    """Run every tools/tables/*.py translator; returns (results, errors).  Under the build lock."""
    sys.path.insert(0, os.path.join(VERIF, 'tools'))
    import extract_tables
    importlib.reload(extract_tables)
    return extract_tables.run(repo)


# ---------------------------------------------------------------------------- S1/S2
def strip_comments(src):
    """Remove Lean comments (nested block comments, line comments) and string literals."""
    out = []
    i, n, depth = 0, len(src), 0
    while i < n:
        if src.startswith('/-', i):
            depth += 1
            i += 2
        elif depth and src.startswith('-/', i):
            depth -= 1
            i += 2
        elif depth:
            if src[i] == '\n':
                out.append('\n')
            i += 1
        elif src.startswith('--', i):
            while i < n and src[i] != '\n':
                i += 1
        elif src[i] == '"':
            i += 1
            while i < n and src[i] != '"':
                i += 2 if src[i] == '\\' else 1
            i += 1
            out.append('""')
        else:
            out.append(src[i])
            i += 1
    return ''.join(out)


def module_file(mod):
    return os.path.join(LEAN, *mod.split('.')) + '.lean'


def import_closure(root_mod):
    """Transitive imports of root_mod inside this package (TxdbusModel.*, Driver.*)."""
    seen, todo = [], [root_mod]
    while todo:
        m = todo.pop()
        if m in seen:
            continue
        f = module_file(m)
        if not os.path.exists(f):
            continue
        seen.append(m)
        for line in open(f, encoding='utf-8'):
            mm = re.match(r'\s*(?:public\s+)?import\s+([A-Za-z0-9_.]+)', line)
            if mm and (mm.group(1).startswith('TxdbusModel.') or mm.group(1).startswith('Driver.')):
                todo.append(mm.group(1))
    return seen


def external_imports(mods):
    ext = set()
    for m in mods:
        for line in open(module_file(m), encoding='utf-8'):
            mm = re.match(r'\s*(?:public\s+)?import\s+([A-Za-z0-9_.]+)', line)
            if mm and not (mm.group(1).startswith('TxdbusModel.') or mm.group(1).startswith('Driver.')):
                ext.add(mm.group(1))
    return sorted(ext)


def audit_sources(mods):
    hits = []
    for m in mods:
        f = module_file(m)
        rel = os.path.relpath(f, LEAN)
        code = strip_comments(open(f, encoding='utf-8').read())
        for ln, line in enumerate(code.split('\n'), 1):
            for pat in FORBIDDEN:
                if re.search(pat, line):
                    if 'partial' in pat and rel in PARTIAL_OK:
                        continue
                    hits.append('%s:%d: %s' % (rel, ln, line.strip()[:120]))
    return hits


AX_RE = re.compile(r"'([^']+)' depends on axioms: \[([^\]]*)\]", re.S)
NOAX_RE = re.compile(r"'([^']+)' does not depend on any axioms")


def parse_axioms(log):
    res = {}
    for m in AX_RE.finditer(log):
        res[m.group(1)] = [a.strip() for a in m.group(2).replace('\n', ' ').split(',') if a.strip()]
    for m in NOAX_RE.finditer(log):
        res[m.group(1)] = []
    return res


def declared_print_axioms(prop_mod):
    """Names that the Properties file asks `#print axioms` for."""
    code = strip_comments(open(module_file(prop_mod), encoding='utf-8').read())
    return re.findall(r'#print\s+axioms\s+([A-Za-z0-9_.\']+)', code)


def declared_theorems(prop_mod):
    code = strip_comments(open(module_file(prop_mod), encoding='utf-8').read())
    return re.findall(r'^\s*(?:protected\s+|private\s+)?theorem\s+([A-Za-z0-9_.\']+)', code, re.M)


# ---------------------------------------------------------------------------- driver
def run_check(prop, tier, seed, repo, replay=None, budget_s=None):
    t0 = time.time()
    prop = prop.upper()
    low = prop.lower()
    prop_mod = 'TxdbusModel.Properties.' + prop
    drv_mod = 'Driver.' + prop
    broken = []          # obligations that do not check: list of {'obligation', 'detail'}
    obligations = []     # names of all obligations
    info = {}

    sys.path.insert(0, VERIF)
    ctxmod.use_repo(repo)

    # ---- S0 + S1 under the build lock
    with lake_lock():
        try:
            results, errors = regenerate_tables(repo)
        except Exception as e:   # translator crashed
            results, errors = [], ['translator crashed: %r' % (e,)]
        info['tables'] = results
        t_build = time.time()
        rc_p, log_p = sh(['lake', 'build', prop_mod], cwd=LEAN)
        rc_d, log_d = sh(['lake', 'build', 'drv_' + low], cwd=LEAN)
        info['build_s'] = round(time.time() - t_build, 1)

    prop_mods = import_closure(prop_mod)
    drv_mods = import_closure(drv_mod)
    gen_used = sorted(m for m in set(prop_mods + drv_mods) if m.startswith('TxdbusModel.Gen.'))
    for m in gen_used:
        obligations.append('table:' + m)
    for e in errors:
        # a translator failure only concerns this property if it uses that table (or the name is unknown)
        tgt = e.get('module') if isinstance(e, dict) else None
        if tgt is None or tgt in gen_used:
            broken.append({'obligation': 'table:' + str(tgt), 'detail': e.get('error') if isinstance(e, dict) else e})

    # translators that re-derived a table by probing the code because they did not recognise a source shape:
    # not a broken obligation (the table was regenerated), but the failing-input search is widened
    advisories = [{'table': r['module'], 'advisory': a} for r in results if isinstance(r, dict)
                  and r.get('module') in gen_used for a in r.get('advisories', [])]
    info['advisories'] = advisories

    # ---- S1 verdicts
    obligations.append('build:' + prop_mod)
    if rc_p != 0:
        broken.append({'obligation': 'build:' + prop_mod, 'detail': tail_errors(log_p)})
    obligations.append('build:drv_' + low)
    if rc_d != 0:
        broken.append({'obligation': 'build:drv_' + low, 'detail': tail_errors(log_d)})

    # ---- S2 audit
    hits = audit_sources(sorted(set(prop_mods + drv_mods)))
    obligations.append('audit:sources')
    obligations.append('harness')
    if hits:
        broken.append({'obligation': 'audit:sources', 'detail': hits[:20]})
    axioms = parse_axioms(log_p)
    theorems = declared_theorems(prop_mod) if os.path.exists(module_file(prop_mod)) else []
    printed = declared_print_axioms(prop_mod) if os.path.exists(module_file(prop_mod)) else []
    thm_info = []
    for t in theorems:
        obligations.append('theorem:' + t)
        short = t
        matches = [k for k in axioms if k == t or k.endswith('.' + t)]
        if rc_p != 0:
            thm_info.append({'name': t, 'checked': False})
            continue
        if not matches:
            broken.append({'obligation': 'theorem:' + t, 'detail': 'no `#print axioms` output for this theorem'})
            thm_info.append({'name': t, 'checked': False})
            continue
        ax = axioms[matches[0]]
        bad = [a for a in ax if a not in ALLOWED_AXIOMS]
        thm_info.append({'name': t, 'checked': not bad, 'axioms': ax})
        if bad:
            broken.append({'obligation': 'theorem:' + t, 'detail': 'axioms outside the allowed set: %s' % bad})
    info['theorems'] = thm_info
    info['external_imports'] = external_imports(prop_mods)

    # ---- harness
    try:
        hmod = importlib.import_module('harness.' + low)
    except ModuleNotFoundError as e:
        if e.name in ('harness.' + low,):
            hmod = None
        else:
            raise
    required = list(getattr(hmod, 'THEOREMS', [])) if hmod else []
    for t in required:
        if t not in theorems:
            obligations.append('theorem:' + t)
            broken.append({'obligation': 'theorem:' + t, 'detail': 'required by the harness, absent from ' + prop_mod})
    streams = list(getattr(hmod, 'STREAMS', [])) if hmod else []

    if replay:
        data = json.load(open(replay))
        c = ctxmod.Ctx(prop, tier, seed, repo, budget_s=budget_s)
        if hmod is None or not hasattr(hmod, 'replay'):
            print('no replay support for', prop)
            return 2
        hmod.replay(c, data)
        for v in c.violations:
            print('REPLAY violation key=%s: %s' % (v['key'], v['what']))
        for d in c.disagreements:
            print('REPLAY disagreement stream=%s' % d['stream'])
        if not c.violations and not c.disagreements:
            print('REPLAY: property holds on this input; model and implementation agree')
        return 1 if c.violations else 0

    def run_harness(widen):
        c = ctxmod.Ctx(prop, tier, seed, repo, widen=widen, budget_s=budget_s)
        if hmod is None:
            return c, 'no harness module harness/%s.py' % low
        try:
            hmod.run(c)
            return c, None
        except Exception:
            return c, traceback.format_exc()

    c, herr = run_harness(False)
    ctxs = [c]
    if herr:
        broken.append({'obligation': 'harness', 'detail': herr[-3000:]})
    for s in streams:
        obligations.append('correspondence:' + s)
        ds = [d for d in c.disagreements if d['stream'] == s]
        if ds:
            broken.append({'obligation': 'correspondence:' + s, 'detail': ds[0]})
        elif s not in c.streams_run:
            broken.append({'obligation': 'correspondence:' + s, 'detail': 'stream did not run'
                           + ('' if c.model_available else ' (driver not built)')})
    for d in c.disagreements:
        if d['stream'] not in streams:
            obligations.append('correspondence:' + d['stream'])
            broken.append({'obligation': 'correspondence:' + d['stream'], 'detail': d})

    # ---- widen the failing-input search when an obligation is broken and nothing concrete was found
    known = load_known(prop)
    def new_violations(cs):
        out = []
        for cc in cs:
            for v in cc.violations:
                if not any(k['key'] == v['key'] and k.get('status') == 'known' for k in known):
                    out.append(v)
        return out
    if (broken or advisories) and not new_violations(ctxs) and hmod is not None:
        c2, herr2 = run_harness(True)
        ctxs.append(c2)
        if herr2 and not herr:
            broken.append({'obligation': 'harness(widened)', 'detail': herr2[-3000:]})
        already = {b['obligation'] for b in broken}
        for d in c2.disagreements:
            ob = 'correspondence:' + d['stream']
            if ob not in already:
                already.add(ob)
                if ob not in obligations:
                    obligations.append(ob)
                broken.append({'obligation': ob, 'detail': d})

    # ---- thorough: independent re-check of the compiled theorems
    if tier == 'thorough' and rc_p == 0:
        obligations.append('leanchecker:' + prop_mod)
        with lake_lock():
            rc_c, log_c = sh(['lake', 'env', 'leanchecker', prop_mod], cwd=LEAN, timeout=3600)
        if rc_c != 0:
            broken.append({'obligation': 'leanchecker:' + prop_mod, 'detail': log_c[-2000:]})

    # ---- S5 verdict
    os.makedirs(os.path.join(VERIF, 'replays'), exist_ok=True)
    exit_code = 0
    lines = []
    seen_keys = set()
    n_viol = 0
    for cc in ctxs:
        for v in cc.violations:
            if v['key'] in seen_keys:
                continue
            seen_keys.add(v['key'])
            k = [k for k in known if k['key'] == v['key'] and k.get('status') == 'known']
            if k:
                lines.append('KNOWN-FINDING: property=%s %s' % (prop, k[0].get('what', v['what'])))
                continue
            n_viol += 1
            path = write_replay(prop, v['key'], {'property': prop, 'kind': 'failing-input', 'key': v['key'],
                                                 'what': v['what'], 'input': v['input'], 'observed': v['observed'],
                                                 'expected': v['expected'], 'seed': seed, 'tier': tier,
                                                 'replay_cmd': '/venv/bin/python check.py %s --replay <this file>' % prop})
            lines.append('VIOLATION property=%s replay=%s' % (prop, path))
            exit_code = 1
    if broken and n_viol == 0:
        path = write_replay(prop, 'unproved', {'property': prop, 'kind': 'no-failing-input-found',
                                               'broken_obligations': broken, 'seed': seed, 'tier': tier,
                                               'note': 'a theorem, table or correspondence stream of this property no longer '
                                                       'checks against the current source; the widened search found no input on '
                                                       'which the implementation fails'})
        lines.append('VIOLATION property=%s replay=%s no-failing-input-found' % (prop, path))
        n_viol += 1
        exit_code = 1
    # known entries that were expected but not re-found are only noted
    wall = time.time() - t0

    # ---- evidence
    cmain = ctxs[0]
    tot_cases = sum(cc.cases for cc in ctxs)
    nontriv = set()
    for cc in ctxs:
        nontriv |= cc.nontrivial
    discharged = len(obligations) - len({b['obligation'] for b in broken if b['obligation'] in obligations})
    ev = {
        'property_id': prop, 'tier': tier, 'seed': seed, 'level': 'proof',
        'coverage': {
            'obligations': len(obligations),
            'discharged': max(discharged, 0),
            'obligation_list': obligations,
            'broken': broken[:10],
            'checker_cmd': 'cd lean && lake build %s drv_%s   # then audit of #print axioms and sources (vlib/pipeline.py)%s'
                           % (prop_mod, low, '; lake env leanchecker ' + prop_mod if tier == 'thorough' else ''),
            'trusted_base': BASE_TRUSTED + list(getattr(hmod, 'TRUSTED_BASE', []) if hmod else []),
            'theorems': thm_info,
            'lean_modules': prop_mods,
            'non_core_imports': info['external_imports'],
            'tables_regenerated': info['tables'],
            'translator_advisories': info.get('advisories', []),
            'evaluations': tot_cases,
            'distinct_nontrivial': len(nontriv),
            'rule': getattr(hmod, 'RULE', 'cases generated by harness/%s.py from VERIF_SEED; distinct = distinct canonical JSON of the case; '
                            'non-trivial as flagged by the generator' % low) if hmod else '',
            'samples': cmain.samples[:12],
            'by_stream': cmain.by_stream,
            'distribution': cmain.stats,
            'traces_validated_against_impl': sum(cc.impl_traces for cc in ctxs),
            'model_driver_lines': sum(cc.model_lines for cc in ctxs),
            'disagreements': len(cmain.disagreements),
            'exhaustive': bool(cmain.exhaustive),
            'notes': cmain.notes[:20],
            'build_s': info.get('build_s'),
        },
        'assumptions': list(getattr(hmod, 'ASSUMPTIONS', []) if hmod else []),
        'wall_s': round(wall, 2),
        'violations': n_viol,
    }
    os.makedirs(os.path.join(VERIF, 'evidence'), exist_ok=True)
    with open(os.path.join(VERIF, 'evidence', prop + '.json'), 'w') as f:
        json.dump(ev, f, indent=1, sort_keys=True, default=repr)
        f.write('\n')

    # a run against another tree (TXDBUS_REPO=<worktree>) regenerated the shared Gen/*.lean from that tree:
    # put the tables of /repo back so that nothing mutated is left behind (or committed by accident)
    if os.path.abspath(repo) != '/repo' and os.path.isdir('/repo/txdbus') and not os.environ.get('VERIF_KEEP_TABLES'):
        try:
            with lake_lock():
                regenerate_tables('/repo')
        except Exception:
            pass

    for ln in lines:
        print(ln)
    print('%s tier=%s seed=%d: obligations %d/%d, cases %d (distinct non-trivial %d), disagreements %d, '
          'violations %d, %.1fs' % (prop, tier, seed, ev['coverage']['discharged'], len(obligations), tot_cases,
                                    len(nontriv), len(cmain.disagreements), n_viol, wall))
    if broken:
        for b in broken[:8]:
            print('  broken obligation: %s :: %s' % (b['obligation'], str(b['detail'])[:600]))
    return exit_code


def tail_errors(log):
    errs = [l for l in log.split('\n') if 'error' in l.lower()]
    return '\n'.join(errs[:15]) if errs else log[-1500:]


def load_known(prop):
    p = os.path.join(VERIF, 'known_findings.json')
    if not os.path.exists(p):
        return []
    data = json.load(open(p))
    return [e for e in data.get('findings', []) if e.get('property') == prop]


def write_replay(prop, key, obj):
    h = hashlib.sha1(ctxmod.canon(obj.get('input', obj.get('broken_obligations'))).encode()).hexdigest()[:10]
    safe = re.sub(r'[^A-Za-z0-9_.-]', '_', key)[:60]
    path = os.path.join('replays', '%s-%s-%s.json' % (prop, safe, h))
    with open(os.path.join(VERIF, path), 'w') as f:
        json.dump(obj, f, indent=1, sort_keys=True, default=repr)
        f.write('\n')
    return path
