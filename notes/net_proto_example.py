import sys
sys.path.insert(0,'/repo')
from twisted.internet import defer
from twisted.python import failure
from twisted.internet import error as terror
import txdbus.protocol
txdbus.protocol._is_linux = False
from txdbus import bus, client, authentication, objects, interface
from txdbus.interface import DBusInterface, Method

class AnonOnly(authentication.ClientAuthenticator):
    preference = [b'ANONYMOUS']

class Pipe:
    """one direction byte queue"""
    def __init__(self): self.buf = bytearray(); self.closed=False

class FakeTransport:
    disconnecting = False
    def __init__(self, out_pipe, name):
        self.out = out_pipe; self.name=name
    def write(self, data):
        if not self.disconnecting: self.out.buf += data
    def writeSequence(self, seq):
        for s in seq: self.write(s)
    def loseConnection(self):
        self.disconnecting = True; self.out.closed = True
    def getPeer(self): return None
    def getHost(self): return None

class Net:
    def __init__(self):
        self.bus = bus.Bus()
        class F: pass
        self.bfactory = F(); self.bfactory.bus = self.bus
        self.links = []   # (client_proto, bus_proto, c2b pipe, b2c pipe)
    def add_client(self):
        c2b, b2c = Pipe(), Pipe()
        f = client.DBusClientFactory()
        cp = client.DBusClientConnection(); cp.factory = f
        cp.authenticator = AnonOnly
        bp = bus.BusProtocol(); bp.factory = self.bfactory
        bp.makeConnection(FakeTransport(b2c, 'bus'))
        cp.makeConnection(FakeTransport(c2b, 'cli'))
        self.links.append((cp,bp,c2b,b2c))
        return f.getConnection(), len(self.links)-1
    def deliver(self, i, direction, n=None):
        cp,bp,c2b,b2c = self.links[i]
        pipe, dest = (c2b,bp) if direction=='c2b' else (b2c,cp)
        if not pipe.buf: return False
        n = len(pipe.buf) if n is None else min(n,len(pipe.buf))
        data = bytes(pipe.buf[:n]); del pipe.buf[:n]
        dest.dataReceived(data)
        return True
    def pump(self):
        progress=True
        while progress:
            progress=False
            for i in range(len(self.links)):
                for d in ('c2b','b2c'):
                    if self.deliver(i,d): progress=True

net = Net()
d1,i1 = net.add_client(); d2,i2 = net.add_client()
res = {}
d1.addCallbacks(lambda c: res.__setitem__('c1',c), lambda e: res.__setitem__('e1',e))
d2.addCallbacks(lambda c: res.__setitem__('c2',c), lambda e: res.__setitem__('e2',e))
net.pump()
print(res)
c1,c2 = res['c1'],res['c2']
print(c1.busName, c2.busName)

class Exp(objects.DBusObject):
    iface = DBusInterface('org.t.I', Method('echo', arguments='s', returns='s'), Method('add', arguments='ii', returns='i'))
    dbusInterfaces=[iface]
    def dbus_echo(self, s): return s+'!'
    def dbus_add(self,a,b): return a+b
c2.exportObject(Exp('/obj'))
net.pump()
out={}
dro = c1.getRemoteObject(c2.busName, '/obj')
dro.addCallbacks(lambda r: out.__setitem__('ro',r), lambda e: out.__setitem__('err',e))
net.pump()
print(out)
ro=out['ro']
ro.callRemote('echo','hi').addBoth(lambda r: out.__setitem__('r1',r))
ro.callRemote('add',3,4).addBoth(lambda r: out.__setitem__('r2',r))
net.pump()
print(out['r1'],out['r2'])
